"""Runs ONE obligation (one harness function) under CrossHair and writes a JSON result.

usage: worker.py <harness module> <function> <per_condition_timeout_s> <out.json> [max_iterations]
Exit code is always 0 unless the worker itself crashes; the verdict is in the JSON.
"""
import ast
import collections
import importlib
import json
import os
import sys
import time
import traceback

sys.path.insert(0, os.path.dirname(os.path.dirname(os.path.abspath(__file__))))
import env.bootstrap  # noqa: E402,F401


def parse_call(message, fn_name):
  """Extracts the argument list of `fn_name(...)` from a CrossHair counterexample message."""
  key = 'when calling '
  i = message.find(key)
  if i < 0:
    return None
  text = message[i + len(key):]
  # the call expression ends at the matching parenthesis
  depth, end, in_str, esc = 0, None, None, False
  for k, ch in enumerate(text):
    if in_str:
      if esc:
        esc = False
      elif ch == '\\':
        esc = True
      elif ch == in_str:
        in_str = None
      continue
    if ch in '"\'':
      in_str = ch
    elif ch == '(':
      depth += 1
    elif ch == ')':
      depth -= 1
      if depth == 0:
        end = k + 1
        break
  if end is None:
    return None
  expr = text[:end]
  try:
    node = ast.parse(expr, mode='eval').body
    ns = {'float': float, 'nan': float('nan'), 'inf': float('inf'), 'True': True, 'False': False, 'None': None}
    args = [eval(compile(ast.Expression(a), '<cex>', 'eval'), {'__builtins__': {}}, ns) for a in node.args]
    kwargs = {k.arg: eval(compile(ast.Expression(k.value), '<cex>', 'eval'), {'__builtins__': {}}, ns)
              for k in node.keywords}
    return {'expr': expr, 'args': args, 'kwargs': kwargs}
  except Exception as e:
    return {'expr': expr, 'parse_error': repr(e)}


def jsonable(x):
  if isinstance(x, float):
    if x != x or x in (float('inf'), float('-inf')):
      return {'__float__': repr(x)}
    return x
  if isinstance(x, (list, tuple)):
    return [jsonable(e) for e in x]
  if isinstance(x, dict):
    return {k: jsonable(v) for k, v in x.items()}
  return x


def main():
  modname, fname, timeout, out = sys.argv[1], sys.argv[2], float(sys.argv[3]), sys.argv[4]
  max_iter = int(sys.argv[5]) if len(sys.argv) > 5 else None
  t0 = time.time()
  c0 = time.process_time()
  result = {'harness': modname, 'fn': fname, 'timeout_s': timeout}
  try:
    import crosshair.core_and_libs  # noqa: F401  registers library models
    from crosshair import core as chcore
    from crosshair.options import AnalysisKind, AnalysisOptionSet
    from crosshair.statespace import MessageType
    from crosshair.pure_importer import prefer_pure_python_imports
    from engine import chplugin, hsupport

    if os.environ.get('VERIF_CH_DEBUG'):
      from crosshair.util import set_debug
      set_debug(True)
    captured = {}
    orig = chcore.analyze_calltree

    def wrapped(options, conditions):
      r = orig(options, conditions)
      captured['status'] = r.verification_status.name
      captured['num_confirmed_paths'] = r.num_confirmed_paths
      return r

    chcore.analyze_calltree = wrapped
    with prefer_pure_python_imports():
      mod = importlib.import_module(modname)
      fn = getattr(mod, fname)
      stats = collections.Counter()
      kw = dict(per_condition_timeout=timeout, report_all=True, analysis_kind=[AnalysisKind.PEP316], stats=stats)
      if max_iter:
        kw['max_iterations'] = max_iter
      unblock = getattr(mod, 'UNBLOCK', None)
      if unblock:
        kw['unblock'] = tuple(unblock)
      options = AnalysisOptionSet(**kw)
      checkables = chcore.analyze_function(fn, options)
      if not checkables:
        raise RuntimeError('no checkable conditions on %s.%s' % (modname, fname))
      messages = chcore.run_checkables(checkables)
    result['import_and_setup_s'] = None
    verdict, detail, cex = 'unknown', '', None
    for m in messages:
      st = m.state
      if st == MessageType.CONFIRMED:
        verdict = 'confirmed'
      elif st == MessageType.CANNOT_CONFIRM:
        verdict = 'unknown'
      elif st == MessageType.PRE_UNSAT:
        verdict = 'pre_unsat'
      elif st in (MessageType.POST_FAIL, MessageType.POST_ERR, MessageType.EXEC_ERR):
        verdict = 'counterexample'
        cex = parse_call(m.message, fname)
      else:
        verdict = 'error'
      detail = m.message
      result['traceback'] = (m.traceback or '')[-3000:]
      if verdict in ('counterexample', 'error'):
        break
    result.update(verdict=verdict, detail=detail, counterexample=jsonable(cex),
                  status=captured.get('status'), num_confirmed_paths=captured.get('num_confirmed_paths', 0),
                  iterations=stats.get('num_paths', 0), reach=hsupport.REACH,
                  n_finished=hsupport.N_FINISHED[0], distinct_models=len(hsupport.DISTINCT),
                  real_float_model_used=chplugin.REAL_MODEL_USED[0] > 0, paths=jsonable(hsupport.PATHS),
                  stubs={k: chplugin.STUBS[k] for k in chplugin.ENABLED if k in chplugin.STUBS},
                  harness_assumptions=list(getattr(mod, 'ASSUMPTIONS', [])))
  except BaseException as e:  # noqa
    result.update(verdict='error', detail='worker failure: %r' % (e,), traceback=traceback.format_exc()[-4000:])
  result['wall_s'] = round(time.time() - t0, 2)
  result['cpu_s'] = round(time.process_time() - c0, 2)
  # values still symbolic when the path ended (e.g. an observation dict of a refuted path) are written as a type tag
  text = json.dumps(result, default=lambda o: '<%s>' % type(o).__name__)
  with open(out, 'w') as f:
    f.write(text)


if __name__ == '__main__':
  main()
