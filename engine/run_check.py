"""Driver: run_check.py <property id> [--tier quick|thorough] [--replay file] [--only substr]

For each obligation of the property (engine/registry.py) one worker process runs the harness under CrossHair/z3.
Verdicts:  confirmed (solver exhausted every path within the bound) | inconclusive | counterexample.
A counterexample is re-executed natively against the real code; only if it fails again:
  listed in known_findings.jsonl -> "KNOWN-FINDING: property=<id> ..."  (exit 0)
  otherwise                      -> "VIOLATION property=<id> replay=<path>" (exit 1)
A counterexample that does not reproduce, or a crashing worker, is a harness error (exit 3).
Writes /verif/evidence/<id>.json on every run.
"""
import argparse
import concurrent.futures as cf
import hashlib
import json
import os
import subprocess
import sys
import tempfile
import time

VERIF = os.path.dirname(os.path.dirname(os.path.abspath(__file__)))
sys.path.insert(0, VERIF)
from engine import registry  # noqa: E402

PY = os.path.join(VERIF, '.venv', 'bin', 'python')
KNOWN_PATH = os.path.join(VERIF, 'known_findings.jsonl')


def load_known():
  out = []
  if os.path.exists(KNOWN_PATH):
    for line in open(KNOWN_PATH):
      line = line.strip()
      if line.startswith('{'):
        out.append(json.loads(line))
  return out


def run_worker(obl, timeout, tmpdir, seed):
  out = os.path.join(tmpdir, obl['oid'].replace('/', '_') + '.json')
  env = dict(os.environ)
  env.update({'PYTHONHASHSEED': '0', 'VERIF_SEED': str(seed)})
  env.update(obl.get('env', {}))
  t0 = time.time()
  if obl.get('kind', 'crosshair') == 'script':
    cmd = [PY, os.path.join(VERIF, obl['script'])] + [str(a) for a in obl.get('args', [])] + [str(timeout), out]
  else:
    cmd = [PY, os.path.join(VERIF, 'engine', 'worker.py'), obl['harness'], obl['fn'], str(timeout), out]
    if obl.get('max_iter'):
      cmd.append(str(obl['max_iter']))
  wall_cap = timeout * 2.5 + 120
  try:
    p = subprocess.run(cmd, env=env, cwd=VERIF, stdout=subprocess.PIPE, stderr=subprocess.PIPE, timeout=wall_cap)
    stderr = p.stderr.decode('utf8', 'replace')[-3000:]
    rc = p.returncode
  except subprocess.TimeoutExpired:
    return {'verdict': 'unknown', 'detail': 'worker exceeded wall cap %.0fs' % wall_cap, 'wall_s': time.time() - t0,
            'iterations': 0, 'num_confirmed_paths': 0}
  if not os.path.exists(out):
    return {'verdict': 'error', 'detail': 'worker wrote no result (rc=%s): %s' % (rc, stderr[-1500:]),
            'wall_s': time.time() - t0}
  try:
    res = json.load(open(out))
  except ValueError as e:
    return {'verdict': 'error', 'detail': 'worker result unreadable (%s): %s' % (e, stderr[-1500:]), 'wall_s': time.time() - t0}
  res.setdefault('wall_s', time.time() - t0)
  if res.get('verdict') == 'error':
    res['stderr'] = stderr[-1500:]
  return res


def native_replay(obl, cases, tmpdir, tag):
  """Returns list of {'ok','exc'} for argument lists `cases`, executed without tracing on the real stack."""
  cpath = os.path.join(tmpdir, '%s.%s.cases.json' % (obl['oid'].replace('/', '_'), tag))
  opath = cpath + '.out'
  json.dump(cases, open(cpath, 'w'))
  env = dict(os.environ)
  env.update(obl.get('env', {}))
  env['VERIF_REPLAY_BACKEND'] = 'upb'
  if tag in ('cex', 'known', 'replay'):
    env['VERIF_IGNORE_KNOWN'] = '1'   # replay inside the region of a known finding must really execute it
  env['PYTHONHASHSEED'] = '0'
  try:
    p = subprocess.run([PY, os.path.join(VERIF, 'engine', 'replay.py'), obl['harness'], obl['fn'], cpath, opath],
                       env=env, cwd=VERIF, stdout=subprocess.PIPE, stderr=subprocess.PIPE, timeout=600)
  except subprocess.TimeoutExpired:
    return None, 'replay timeout'
  if not os.path.exists(opath):
    return None, p.stderr.decode('utf8', 'replace')[-1500:]
  return json.load(open(opath)), ''


def concrete_case(args):
  if args is None:
    return False
  def ok(x):
    if isinstance(x, str):
      return not x.startswith('<sym:') and not x.startswith('<peek')
    if isinstance(x, list):
      return all(ok(e) for e in x)
    return True
  return all(ok(a) for a in args)


def match_known(known, pid, obl, cex_args):
  for k in known:
    if k.get('property') != pid or k.get('status', 'open') != 'open':
      continue
    if 'applies_to_prefix' in k:
      if not obl['oid'].startswith(k['applies_to_prefix']):
        continue
    elif obl['oid'] not in k.get('applies_to', [k.get('obligation')]):
      continue
    # A known finding is identified by its obligation AND the class of failing input (`match` = python expr on args)
    expr = k.get('match')
    if expr is None:
      if k.get('input') == cex_args:
        return k
      continue
    try:
      dec = [float(a['__float__']) if isinstance(a, dict) and '__float__' in a else a for a in (cex_args or [])]
      if eval(expr, {'__builtins__': {}}, {'args': dec, 'len': len, 'abs': abs, 'str': str, 'any': any, 'all': all,
                                            'isinstance': isinstance, 'float': float, 'int': int, 'min': min, 'max': max,
                                            'sorted': sorted}):
        return k
    except Exception:
      continue
  return None


def main():
  ap = argparse.ArgumentParser()
  ap.add_argument('pid')
  ap.add_argument('--tier', default=os.environ.get('VERIF_TIER', 'quick'))
  ap.add_argument('--replay')
  ap.add_argument('--only')
  ap.add_argument('--jobs', type=int, default=int(os.environ.get('VERIF_JOBS', '15')))
  a = ap.parse_args()
  pid, tier = a.pid, a.tier
  seed = int(os.environ.get('VERIF_SEED', '0') or 0)
  prop = registry.PROPS[pid]
  if a.replay:
    rec = json.load(open(a.replay))
    obl = [o for o in prop['obligations'] if o['oid'] == rec['obligation']][0]
    with tempfile.TemporaryDirectory(prefix='verif_') as td:
      res, err = native_replay(obl, [rec['args']], td, 'replay')
    print(json.dumps({'replayed': rec['obligation'], 'args': rec['args'], 'result': res, 'err': err}))
    return 1 if (res and not res[0]['ok']) else 0

  t0 = time.time()
  obls = [o for o in prop['obligations'] if o.get(tier) and (not a.only or a.only in o['oid'])]
  known = load_known()
  results = {}
  with tempfile.TemporaryDirectory(prefix='verif_') as td:
    with cf.ThreadPoolExecutor(max_workers=a.jobs) as ex:
      futs = {ex.submit(run_worker, o, o[tier], td, seed): o for o in obls}
      for f in cf.as_completed(futs):
        results[futs[f]['oid']] = f.result()

    violations, known_hits, harness_errors, lines = [], [], [], []
    per_obl = []
    n_validated = 0
    for o in obls:
      r = results[o['oid']]
      v = r.get('verdict')
      entry = {'obligation': o['oid'], 'what': o.get('what', ''), 'bound': o.get('bound', ''), 'verdict': v,
               'detail': (r.get('detail') or '')[:400], 'paths_explored': r.get('iterations', 0),
               'paths_confirmed': r.get('num_confirmed_paths', 0), 'reached_assertion': r.get('n_finished', 0),
               'distinct_models': r.get('distinct_models', 0), 'reach': r.get('reach', {}),
               'solver_cpu_s': r.get('cpu_s'), 'wall_s': r.get('wall_s'), 'timeout_s': o[tier],
               'engine': o.get('kind', 'crosshair')}
      if o.get('kind', 'crosshair') == 'script':
        entry.update({k: r[k] for k in ('queries', 'solvers', 'encoded') if k in r})
      # --- validate explored path models natively (real protobuf etc.)
      paths = [p for p in r.get('paths', []) if concrete_case(p.get('args')) and p.get('ok') is True]
      paths = paths[:o.get('validate', 12)]
      if paths and o.get('kind', 'crosshair') == 'crosshair' and not o.get('no_validate'):
        res, err = native_replay(o, [p['args'] for p in paths], td, 'paths')
        if res is None:
          harness_errors.append('%s: native path validation failed to run: %s' % (o['oid'], err))
        else:
          n_validated += len(res)
          bad = [(p['args'], x) for p, x in zip(paths, res) if not x['ok']]
          entry['paths_validated_natively'] = len(res)
          if bad:
            # a concrete input inside the bound on which the REAL stack fails the postcondition
            r = dict(r, verdict='counterexample', counterexample={'args': bad[0][0], 'expr': 'path-model'},
                     detail='native run of an explored path model fails: %s' % (bad[0][1].get('exc'),))
            v = 'counterexample'
            entry['verdict'] = v
            entry['detail'] = r['detail'][:400]
      if v == 'counterexample':
        cex = r.get('counterexample') or {}
        args = cex.get('args')
        if args is None:
          harness_errors.append('%s: counterexample could not be parsed: %s' % (o['oid'], r.get('detail')))
        else:
          res, err = native_replay(o, [args], td, 'cex')
          if res is None:
            harness_errors.append('%s: replay failed to run: %s' % (o['oid'], err))
          elif res[0]['ok']:
            harness_errors.append('%s: counterexample %s does not reproduce natively (%s)' % (
                o['oid'], cex.get('expr'), r.get('detail', '')[:200]))
            entry['verdict'] = 'non-reproducing-counterexample'
          else:
            k = match_known(known, pid, o, args)
            entry['counterexample'] = {'args': args, 'native': res[0].get('exc') or 'postcondition false'}
            if k:
              known_hits.append((k, o, args))
              entry['verdict'] = 'known-finding'
            else:
              h = hashlib.sha1(json.dumps([o['oid'], args], sort_keys=True).encode()).hexdigest()[:12]
              rdir = os.path.join(os.environ.get('VERIF_REPLAY_DIR', os.path.join(VERIF, 'replays')), pid)
              os.makedirs(rdir, exist_ok=True)
              rpath = os.path.join(rdir, h + '.json')
              json.dump({'property': pid, 'obligation': o['oid'], 'harness': o['harness'], 'fn': o['fn'],
                         'args': args, 'solver_message': r.get('detail'), 'native': res[0]}, open(rpath, 'w'),
                        indent=1)
              violations.append((o, rpath, r.get('detail')))
      elif v == 'error':
        harness_errors.append('%s: %s %s' % (o['oid'], r.get('detail'), (r.get('traceback') or '')[-600:]))
      entry['sample_paths'] = [p for p in r.get('paths', [])[:3]]
      per_obl.append(entry)

    # --- open known findings: replay their recorded input; still failing -> KNOWN-FINDING line
    for k in known:
      if k.get('property') != pid or k.get('status', 'open') != 'open':
        continue
      o = next((x for x in prop['obligations'] if x['oid'] == k.get('obligation')), None)
      if o is None or 'input' not in k:
        continue
      res, err = native_replay(o, [k['input']], td, 'known')
      if res is not None and not res[0]['ok']:
        lines.append('KNOWN-FINDING: property=%s %s [%s]' % (pid, k['what'], k['key']))
      elif res is not None:
        lines.append('NOTE: known finding %s no longer reproduces' % k['key'])

  n_obl = len(per_obl)
  discharged = sum(1 for e in per_obl if e['verdict'] == 'confirmed')
  inconclusive = [e['obligation'] for e in per_obl if e['verdict'] in ('unknown', 'pre_unsat')]
  samples = []
  for e in per_obl:
    for p in e.pop('sample_paths'):
      if len(samples) < 12:
        samples.append({'obligation': e['obligation'], 'path_model_args': p.get('args'), 'post_held': p.get('ok')})
  if not samples:
    samples = [{'obligation': e['obligation'], 'verdict': e['verdict']} for e in per_obl[:5]]
  total_paths = sum(e['paths_explored'] or 0 for e in per_obl)
  distinct = sum(e['distinct_models'] or 0 for e in per_obl)
  evidence = {
      'property_id': pid, 'tier': tier, 'seed': seed, 'level': prop.get('level', 'model_checking'),
      'coverage': {
          'states': max(1, sum(e['paths_confirmed'] or 0 for e in per_obl)),
          'transitions': max(1, total_paths),
          'traces_validated_against_impl': n_validated,
          'evaluations': max(1, total_paths),
          'distinct_nontrivial': max(distinct, 0),
          'rule': ('one evaluation = one symbolic execution path of a harness over the real code (a z3-feasible '
                   'branch sequence); non-trivial = the path passed the precondition and reached the property '
                   'assertion; distinct = distinct solver models of such paths (peeked without constraining)'),
          'samples': samples,
          'obligations': n_obl, 'discharged': discharged, 'inconclusive': inconclusive,
          'exhaustive': bool(n_obl and discharged == n_obl),
          'explanation': ('Bounded symbolic execution of the real /repo code (CrossHair 0.0.110 on z3): "confirmed" '
                          'means z3 proved every unexplored branch infeasible, i.e. the postcondition holds for ALL '
                          'argument values inside the stated bound; "unknown" obligations are inconclusive, not '
                          'passes.'),
          'functions_encoded': prop.get('encoded', []),
          'bounds': prop.get('bounds', ''), 'outside_claim': prop.get('outside', ''),
          'per_obligation': per_obl,
          'solver_time_cpu_s': round(sum(e['solver_cpu_s'] or 0 for e in per_obl), 1),
          'stubs': sorted({s for r in results.values() for s in (r.get('stubs') or {}).values()}),
          'checker_cmd': 'engine/run_check.py %s --tier %s' % (pid, tier),
          'trusted_base': ['CrossHair 0.0.110', 'z3 5.1.0', 'harness oracles', 'env/pbgen.py', 'env/symproto.py'],
          'known_findings_reported': [k['key'] for k, _, _ in known_hits],
          'harness_errors': harness_errors,
      },
      'assumptions': sorted(set(prop.get('assumptions', [])) |
                            {s for r in results.values() for s in (r.get('harness_assumptions') or [])}),
      'wall_s': round(time.time() - t0, 1),
      'violations': len(violations),
  }
  evdir = os.environ.get('VERIF_EVIDENCE_DIR', os.path.join(VERIF, 'evidence'))   # redirected only by tools/run_seeds.py
  if a.only and 'VERIF_EVIDENCE_DIR' not in os.environ:
    evdir = os.path.join(VERIF, 'evidence', '.partial')      # a subset run (development aid) never replaces the full evidence
  os.makedirs(evdir, exist_ok=True)
  json.dump(evidence, open(os.path.join(evdir, pid + '.json'), 'w'), indent=1)

  for e in per_obl:
    print('%-44s %-14s paths=%-5s confirmed=%-5s cpu=%ss  %s' % (
        e['obligation'], e['verdict'], e['paths_explored'], e['paths_confirmed'], e['solver_cpu_s'],
        '' if e['verdict'] == 'confirmed' else e['detail'][:160]))
  seen = set()
  for k, o, args in known_hits:
    if k['key'] not in seen and not any(k['key'] in l for l in lines):
      lines.append('KNOWN-FINDING: property=%s %s [%s]' % (pid, k['what'], k['key']))
    seen.add(k['key'])
  for l in lines:
    print(l)
  print('%s tier=%s obligations=%d confirmed=%d inconclusive=%d violations=%d harness_errors=%d wall=%.0fs' % (
      pid, tier, n_obl, discharged, len(inconclusive), len(violations), len(harness_errors), time.time() - t0))
  for o, rpath, detail in violations:
    print('VIOLATION property=%s replay=%s' % (pid, rpath))
    print('  obligation=%s %s' % (o['oid'], (detail or '')[:300]))
  if violations:
    return 1
  if harness_errors:
    for h in harness_errors:
      print('HARNESS-ERROR: ' + h[:1200])
    return 3
  return 0


if __name__ == '__main__':
  sys.exit(main())
