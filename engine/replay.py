"""Native re-execution (no tracing, real upb protobuf, real numpy/sqlite) of harness functions on concrete arguments.

usage: replay.py <harness module> <function> <cases.json> <out.json>
cases.json: list of argument lists (floats nan/inf encoded as {"__float__": "inf"}).
out.json: list of {"ok": bool|None, "exc": str|None}
"""
import importlib
import json
import os
import sys
import traceback

sys.path.insert(0, os.path.dirname(os.path.dirname(os.path.abspath(__file__))))
os.environ['PB_BACKEND'] = os.environ.get('VERIF_REPLAY_BACKEND', 'upb')
import env.bootstrap  # noqa: E402,F401


def decode(x):
  if isinstance(x, dict) and '__float__' in x:
    return float(x['__float__'])
  if isinstance(x, list):
    return [decode(e) for e in x]
  return x


def main():
  modname, fname, cases_path, out = sys.argv[1:5]
  mod = importlib.import_module(modname)
  fn = getattr(mod, fname)
  import inspect
  params = list(inspect.signature(fn).parameters.values())
  results = []
  for case in json.load(open(cases_path)):
    args = decode(case)
    if len(args) != len(params):
      raise SystemExit('harness bug: %s takes %d args, path model has %d' % (fname, len(params), len(args)))
    # coerce to the declared parameter types (a peeked real may arrive as int where float is declared)
    for i, p in enumerate(params[:len(args)]):
      if p.annotation is float and isinstance(args[i], int) and not isinstance(args[i], bool):
        args[i] = float(args[i])
    try:
      r = fn(*args)
      results.append({'ok': bool(r), 'exc': None})
    except BaseException as e:  # noqa
      results.append({'ok': False, 'exc': '%s: %s' % (type(e).__name__, str(e)[:300]),
                      'tb': traceback.format_exc()[-1500:]})
  json.dump(results, open(out, 'w'))


if __name__ == '__main__':
  main()
