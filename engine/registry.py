"""Obligations per property. quick/thorough = per-condition CPU timeout (s) in that tier (absent = not run there)."""


def O(oid, harness, fn, quick=None, thorough=None, what='', bound='', env=None, **kw):
  d = dict(oid=oid, harness=harness, fn=fn, quick=quick, thorough=thorough, what=what, bound=bound, env=env or {})
  d.update(kw)
  return d


PROPS = {}

PROPS['C16'] = dict(
    level='model_checking',
    encoded=['ParameterConfig.factory', 'ParameterConfig.contains', 'ParameterConfig._assert_feasible',
             'ParameterType.assert_correct_type', 'ParameterValue.as_float/as_int/as_str',
             'SearchSpace.contains', 'SearchSpace.assert_contains'],
    bounds='bounds/candidates: all ints, all reals (+nan/inf); feasible lists <= 3; strings <= 2 chars',
    outside='float rounding; float(int) above 2**53; conditional spaces deeper than the harness shapes',
    assumptions=[],
    obligations=[
        O('C16.contains_double', 'harness.c16_contains', 'contains_double', 60, 300,
          'DOUBLE: contains(v) <=> lo <= v <= hi, for all real bounds and all real/nan/inf v'),
        O('C16.contains_double_intvalue', 'harness.c16_contains', 'contains_double_intvalue', 60, 300,
          'DOUBLE: int candidate'),
        O('C16.contains_integer_int', 'harness.c16_contains', 'contains_integer_int', 60, 300,
          'INTEGER: contains(int v) <=> lo <= v <= hi for all ints'),
        O('C16.contains_integer_float', 'harness.c16_contains', 'contains_integer_float', 60, 300,
          'INTEGER: float candidate accepted iff integral and within bounds; nan/inf -> False (a bool, no exception)'),
        O('C16.contains_discrete', 'harness.c16_contains', 'contains_discrete', 120, 600,
          'DISCRETE: factory sorts/uniquifies, contains <=> member', 'n<=3 feasible values, all reals'),
        O('C16.contains_categorical', 'harness.c16_contains', 'contains_categorical', 120, 600,
          'CATEGORICAL: contains <=> member', 'n<=3 categories, strings <= 2 chars'),
        O('C16.contains_wrong_kind', 'harness.c16_contains', 'contains_wrong_kind', 120, 600,
          'type-incompatible candidates are rejected (False)'),
    ])

PROPS['C10'] = dict(
    level='model_checking',
    encoded=['common.Namespace.encode/decode/__init__/__add__/__getitem__/startswith', 'common._parse'],
    bounds='namespaces of 0..3 components, component length <= 1..4 depending on the obligation, all unicode code points',
    outside='longer components / more components',
    obligations=[
        O('C10.ns_roundtrip_1x4', 'harness.c10_codec', 'ns_roundtrip_1x4', 90, 600,
          'decode(encode(ns)) == ns', '0..1 components, len <= 4'),
        O('C10.ns_roundtrip_2x2', 'harness.c10_codec', 'ns_roundtrip_2x2', 90, 600,
          'decode(encode(ns)) == ns', '2 components, len <= 2'),
        O('C10.ns_roundtrip_3x1', 'harness.c10_codec', 'ns_roundtrip_3x1', 90, 600,
          'decode(encode(ns)) == ns', '3 components, len <= 1'),
        O('C10.ns_roundtrip_3x2', 'harness.c10_codec', 'ns_roundtrip_3x2', None, 1500,
          'decode(encode(ns)) == ns', '3 components, len <= 2'),
        O('C10.ns_roundtrip_2x3', 'harness.c10_codec', 'ns_roundtrip_2x3', None, 1500,
          'decode(encode(ns)) == ns', '2 components, len <= 3'),
        O('C10.ns_injective_1v1', 'harness.c10_codec', 'ns_injective_1v1', 90, 600,
          'distinct tuples -> distinct encodings', '1 vs 1 component, len <= 2'),
        O('C10.ns_injective_2v1', 'harness.c10_codec', 'ns_injective_2v1', 120, 900,
          'distinct tuples -> distinct encodings', '2 components (len <= 1) vs 1 component (len <= 3)'),
        O('C10.ns_injective_mixed', 'harness.c10_codec', 'ns_injective_mixed', 120, 900,
          'distinct tuples -> distinct encodings', '0..2 vs 0..2 components, len <= 1'),
        O('C10.ns_injective_2v2', 'harness.c10_codec', 'ns_injective_2v2', None, 2400,
          'distinct tuples -> distinct encodings', '2 vs 2 components, len <= 2'),
        O('C10.ns_sequence', 'harness.c10_codec', 'ns_sequence', 60, 300,
          'Namespace(tuple(ns)) == ns, len, +, slicing, startswith'),
    ])
