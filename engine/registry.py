"""Obligations per property. quick/thorough = per-condition CPU timeout (s) in that tier (absent = not run there)."""

_FF0 = {'VERIF_FINITE_FLOATS': '1'}


def O(oid, harness, fn, quick=None, thorough=None, what='', bound='', env=None, **kw):
  d = dict(oid=oid, harness=harness, fn=fn, quick=quick, thorough=thorough, what=what, bound=bound, env=env or {})
  d.update(kw)
  return d


PROPS = {}

PROPS['C16'] = dict(
    level='model_checking',
    encoded=['ParameterConfig.factory', 'SearchSpaceSelector.add_*_param/select_values', 'ParameterConfig.subspace', 'SequentialParameterBuilder', 'clients.Study.add_trial', 'ParameterConfig.contains', 'ParameterConfig._assert_feasible',
             'ParameterType.assert_correct_type', 'ParameterValue.as_float/as_int/as_str',
             'SearchSpace.contains', 'SearchSpace.assert_contains'],
    bounds='bounds/candidates: all ints, all reals (+nan/inf); feasible lists <= 3; strings <= 2 chars',
    outside='float rounding; float(int) above 2**53; conditional spaces deeper than the harness shapes',
    assumptions=[],
    obligations=[
        O('C16.contains_double', 'harness.c16_contains', 'contains_double', 60, 300,
          'DOUBLE: contains(v) <=> lo <= v <= hi, for all real bounds and all real/nan/inf v'),
        O('C16.contains_double_intvalue', 'harness.c16_contains', 'contains_double_intvalue', 60, 300,
          'DOUBLE: int candidate'),
        O('C16.contains_integer_int', 'harness.c16_contains', 'contains_integer_int', 60, 300,
          'INTEGER: contains(int v) <=> lo <= v <= hi for all ints'),
        O('C16.contains_integer_float', 'harness.c16_contains', 'contains_integer_float', 60, 300,
          'INTEGER: float candidate accepted iff integral and within bounds; nan/inf -> False (a bool, no exception)'),
        O('C16.contains_discrete', 'harness.c16_contains', 'contains_discrete', 300, 900,
          'DISCRETE: factory sorts/uniquifies, contains <=> member', 'n<=3 feasible values, all reals'),
        O('C16.contains_categorical', 'harness.c16_contains', 'contains_categorical', 300, 900,
          'CATEGORICAL: contains <=> member', 'n<=3 categories, strings <= 2 chars'),
        O('C16.contains_wrong_kind', 'harness.c16_contains', 'contains_wrong_kind', 120, 600,
          'type-incompatible candidates are rejected (False)'),
        O('C16.contains_wrapped', 'harness.c16_contains', 'contains_wrapped', 200, 600,
          'membership of a wrapped value (ParameterValue, as in ParameterDict / Trial.parameters) is membership of the value '
          'it wraps: no casting (a float next to a feasible integer value, a numeric string, a number offered to a boolean '
          'parameter are not members)', 'all reals / ints, 5 strings', env=_FF0),
        O('C16.factory_bounds', 'harness.c16_validation', 'factory_bounds', 90, 300,
          'bounds definitions: rejected iff non-finite, reversed or mixed int/float; type inferred'),
        O('C16.factory_feasible_numeric2', 'harness.c16_validation', 'factory_feasible_numeric2', 200, None,
          'numeric feasible values (1..2, all reals/nan/inf): rejected iff non-finite / empty name; else sorted, unique'),
        O('C16.factory_feasible_numeric3', 'harness.c16_validation', 'factory_feasible_numeric', None, 1500, env=_FF0,
          what='numeric feasible values (1..3, finite reals; non-finite covered for <= 2 values): rejected iff non-finite / empty name; otherwise sorted, '
          'unique, DISCRETE, bounds = (min, max)'),
        O('C16.factory_feasible_strings', 'harness.c16_validation', 'factory_feasible_strings', 300, 900,
          'string feasible values: rejected iff mixed with numbers / empty name; otherwise sorted, CATEGORICAL'),
        O('C16.factory_feasible_duplicates', 'harness.c16_validation', 'factory_feasible_duplicates', 60, 300,
          'duplicate feasible values (also 2 vs 2.0) are rejected', '5 concrete duplicate lists'),
        O('C16.children_rules', 'harness.c16_validation', 'children_rules', 60, 300,
          'children: never under a continuous parameter (even with coinciding bounds), only under feasible parent values, '
          'no duplicate names in one subspace'),
        O('C16.traversal', 'harness.c16_validation', 'traversal', 90, 300,
          'SequentialParameterBuilder (dfs/bfs) visits exactly the parameters active under the values chosen so far, once '
          'each, on conditional spaces up to depth 3; contains() on a conditional space raises NotImplementedError'),
        O('C16.space_membership', 'harness.c16_validation', 'space_membership', 90, 300,
          'SearchSpace.contains: every parameter present once, in domain, nothing else'),
        O('C16.traversal_bool_parent', 'harness.c16_validation', 'traversal_bool_parent', 60, 300,
          'a boolean parent whose child was attached with either spelling (True / "True") is walked correctly with either '
          'spelling of the chosen value'),
        O('C16.client_add_trial_conditional', 'harness.c16_validation', 'client_add_trial_conditional', 60, 300,
          'add_trial on a conditional study never accepts a trial with an unknown key, an inactive child, an out-of-range '
          'child or an infeasible parent value (refusing the study as unsupported is allowed)'),
        O('C16.client_add_trial', 'harness.c16_validation', 'client_add_trial', 90, 300,
          'clients.Study.add_trial refuses (and does not store) out-of-space trials, also after the study was deleted and '
          're-created under the same name with another space'),
    ])

PROPS['C10'] = dict(
    level='model_checking',
    encoded=['common.Namespace.encode/decode/__init__/__add__/__getitem__/startswith', 'common._parse'],
    bounds='namespaces of 0..3 components, component length <= 1..4 depending on the obligation, all unicode code points',
    outside='longer components / more components',
    obligations=[
        O('C10.ns_roundtrip_1x4', 'harness.c10_codec', 'ns_roundtrip_1x4', 90, 600,
          'decode(encode(ns)) == ns', '0..1 components, len <= 4'),
        O('C10.ns_roundtrip_2x2', 'harness.c10_codec', 'ns_roundtrip_2x2', 90, 600,
          'decode(encode(ns)) == ns', '2 components, len <= 2'),
        O('C10.ns_roundtrip_3x1', 'harness.c10_codec', 'ns_roundtrip_3x1', 90, 600,
          'decode(encode(ns)) == ns', '3 components, len <= 1'),
        O('C10.ns_roundtrip_3x2', 'harness.c10_codec', 'ns_roundtrip_3x2', None, 1500,
          'decode(encode(ns)) == ns', '3 components, len <= 2'),
        O('C10.ns_roundtrip_2x3', 'harness.c10_codec', 'ns_roundtrip_2x3', None, 1500,
          'decode(encode(ns)) == ns', '2 components, len <= 3'),
        O('C10.ns_injective_1v1', 'harness.c10_codec', 'ns_injective_1v1', 90, 600,
          'distinct tuples -> distinct encodings', '1 vs 1 component, len <= 2'),
        O('C10.ns_injective_2v1', 'harness.c10_codec', 'ns_injective_2v1', 120, 900,
          'distinct tuples -> distinct encodings', '2 components (len <= 1) vs 1 component (len <= 3)'),
        O('C10.ns_injective_mixed', 'harness.c10_codec', 'ns_injective_mixed', 120, 900,
          'distinct tuples -> distinct encodings', '0..2 vs 0..2 components, len <= 1'),
        O('C10.ns_injective_2v2', 'harness.c10_codec', 'ns_injective_2v2', None, 2400,
          'distinct tuples -> distinct encodings', '2 vs 2 components, len <= 2'),
        O('C10.ns_sequence', 'harness.c10_codec', 'ns_sequence', 60, 300,
          'Namespace(tuple(ns)) == ns, len, +, slicing, startswith'),
    ])

_FF = {'VERIF_FINITE_FLOATS': '1'}

PROPS['C13'] = dict(
    level='model_checking',
    encoded=['GridSearchDesigner.__init__/suggest/dump/load/_maybe_shuffled_grid_values', 'pyvizier.Metadata.ns/__setitem__/__getitem__',
             'ParameterDict', 'TrialSuggestion', 'EagleStrategyDesigner.suggest/update/dump/load (+ serialization, FireflyPool)',
             'NSGA2Designer / CanonicalEvolutionDesigner.suggest/update/dump/load', 'metadata_util.make_key_value_list/'
             'merge_study_metadata/from_key_value_list', 'designer_policy.PartiallySerializableDesignerPolicy', 'trial_caches.IdDeduplicatingTrialLoader'],
    bounds='grid: 2-3 parameters, radices 1..3, _current_index any int >= 0 (arithmetic) / 0..12 (dump-load string hop), '
           'batch sizes 1..3, shuffle seeds 0..3',
    outside='CMA-ES; NSGA-II RNG stream after a restart (the property asks for population, phase and counters); eagle/NSGA-II '
            'on spaces and schedules other than the listed ones; DOUBLE grid axes (numpy linspace)',
    assumptions=['random.Random(seed).shuffle executed natively (seed concrete per branch)'],
    obligations=[
        O('C13.grid_bijection', 'harness.c13_grid', 'grid_bijection', 120, 600,
          'suggest at index i and j give the same point iff i == j mod (product of radices): every grid point exactly '
          'once per period', 'INTEGER x CATEGORICAL radices 1..3, ALL indices i != j >= 0'),
        O('C13.grid_bijection3', 'harness.c13_grid', 'grid_bijection3', None, 1800,
          'same with 3 parameters', 'radices (1..2)x(1..3)x(1..3), all indices'),
        O('C13.grid_restart', 'harness.c13_grid', 'grid_restart', 200, 900,
          'dump -> fresh instance -> load continues exactly like the live instance', 'index 0..12, batches 1..2'),
        O('C13.grid_batch_split', 'harness.c13_grid', 'grid_batch_split', 150, 600,
          'suggest(a); suggest(b) == suggest(a+b) for every start index', 'all indices, a,b in 1..2'),
        O('C13.quasi_restart', 'harness.c13_grid', 'quasi_restart', 90, 300,
          'QUASI_RANDOM: a restart after every request (fresh instance built with another seed, state loaded from metadata) '
          'continues the sequence of the never-stopped designer', 'seeds 0..2, 3 batches of 1..2, real scipy Halton'),
        O('C13.hosted_grid_once_each', 'harness.c13_grid', 'hosted_grid_once_each', 120, 600,
          'grid search hosted behind PartiallySerializableDesignerPolicy rebuilt per request: every grid point exactly once '
          'before repeating, for all batch-size sequences', 'radices 1..3 x 1..3, batch sizes 1..3 cyclic, plain and shuffled'),
        O('C13.grid_shuffled_restart', 'harness.c13_grid', 'grid_shuffled_restart', 200, 900,
          'shuffled grid: load() restores the shuffle order from metadata; period = grid size',
          'seeds 0..3, radices 2..3, index 0..9'),
        O('C13.hosted_grid_via_factory', 'harness.c13_grid', 'hosted_grid_via_factory', 120, 600,
          'GRID_SEARCH / SHUFFLED_GRID_SEARCH exactly as the service hosts them (real DefaultPolicyFactory, new policy per '
          'request, shuffle seed taken from a clock that ticks between requests): every grid point once before repeating',
          'radices 1..3 x 1..3, batch sizes 1..3 cyclic'),
        O('C13.eagle_restart', 'harness.c13_evolution', 'eagle_restart_quick', 240, None,
          'eagle strategy: a twin restarted (dump -> wire -> new instance -> load) before a chosen subset of 8 rounds makes '
          'the same suggestions as the instance kept alive and ends with the same persisted state, also when trials are '
          'reported out of id order and a round late', '2 seeds x batch 3/5 x 4 completion patterns x 6 restart subsets',
          no_validate=True),
        O('C13.hosted_eagle_restart', 'harness.c13_evolution', 'hosted_eagle_restart', 300, 900,
          'eagle strategy behind PartiallySerializableDesignerPolicy (designer state AND incorporated-trial cache persisted '
          'in study metadata): a policy rebuilt before a chosen subset of rounds suggests exactly what a policy kept alive '
          'suggests, also when early trials complete after later ones', '2 seeds x batch 3/5 x 4 completion patterns x 6 '
          'restart subsets', no_validate=True),
        O('C13.eagle_long_restart', 'harness.c13_evolution', 'eagle_long_restart', 200, 600,
          'eagle strategy over a long sequential study (1000 trials: flies are removed from the pool after many unsuccessful '
          'moves): restarted every 1st / 5th / 97th step = kept alive', '2 seeds x 3 restart periods', no_validate=True),
        O('C13.nsga2_restart', 'harness.c13_evolution', 'nsga2_restart', 300, 900,
          'NSGA-II: fed the same history, the restarted twin has the same population, phase and trial counter as the '
          'instance kept alive, at every round (one space with diverged runs reporting an infinite loss)', '3 spaces x 2 seeds x batch 2/3/5 x 4 completion patterns x 6 restart subsets',
          no_validate=True),
    ] + [
        O('C13.eagle_restart_all_s%d' % k, 'harness.c13_evolution', 'eagle_restart', None, 1500,
          'eagle strategy restart equivalence for EVERY subset of the 8 rounds', 'seed %d x batch 2/3/5 x 4 patterns x 256 '
          'restart subsets' % k, env={'VERIF_SLICE': str(k)}, no_validate=True)
        for k in range(3)
    ])

PROPS['C03'] = dict(
    level='model_checking',
    encoded=['random_sample.sample_uniform/sample_integer/sample_discrete/sample_categorical/get_closest_element/'
             '_sample_value/sample_parameters', 'GridSearchDesigner.suggest', 'SearchSpace.contains'],
    bounds='one parameter per type with symbolic bounds / <= 4 feasible values; numpy Generator replaced by a stub '
           'returning arbitrary in-contract draws',
    outside='GP designers (DEFAULT/GP_UCB_PE, GAUSSIAN_PROCESS_BANDIT: JAX/equinox stack does not run in this image); for the '
            'numpy-pipeline designers (quasi-random, eagle, NSGA-II, CMA-ES, BOCS, HARMONICA) everything beyond the listed '
            'space shapes / schedules of the hosted obligations; float rounding',
    assumptions=[],
    obligations=[
        O('C03.sample_double', 'harness.c03_random', 'sample_double_in_bounds', 60, 300,
          'RANDOM_SEARCH kernel: DOUBLE sample within bounds', 'all real bounds, any in-contract draw', env=_FF),
        O('C03.sample_integer', 'harness.c03_random', 'sample_integer_in_bounds', 60, 300,
          'INTEGER sample is an int within bounds (round of a uniform draw)', 'all int bounds, any in-contract draw'),
        O('C03.sample_discrete', 'harness.c03_random', 'sample_discrete_member', 120, 600,
          'DISCRETE sample is a feasible value (nearest to the draw)', '1..3 feasible values (all reals)', env=_FF),
        O('C03.sample_discrete4', 'harness.c03_random', 'sample_discrete_member4', 90, 600,
          'DISCRETE sample is a feasible value', '4 feasible values', env=_FF),
        O('C03.sample_categorical', 'harness.c03_random', 'sample_categorical_member', 60, 300,
          'CATEGORICAL sample is a category', '1..4 categories, any index'),
        O('C03.closest_element', 'harness.c03_random', 'closest_element', 90, 300,
          'get_closest_element returns a member at minimal distance', '1..3 elements', env=_FF),
        O('C03.sample_all_assigned', 'harness.c03_random', 'sample_parameters_all_assigned', None, 1200,
          'every parameter assigned exactly once, in domain', '4 parameters of the 4 types', env=_FF),
        O('C03.grid_double_members', 'harness.c03_random', 'grid_double_members', 120, 600,
          'GRID_SEARCH over a DOUBLE axis: every grid value within the bounds (or the configuration is refused)',
          '7 bound pairs incl. huge/tiny/degenerate, all indices'),
        O('C03.default_seed', 'harness.c03_random', 'default_seed_in_space', 150, 600,
          'default/centre seeding (get_default_parameters): the seed suggestion is inside the space',
          '7 DOUBLE bound pairs x LINEAR/LOG/REVERSE_LOG x with/without default; DISCRETE/CATEGORICAL sizes; any INTEGER bounds'),
        O('C03.grid_members', 'harness.c13_grid', 'grid_members', 200, 900,
          'GRID_SEARCH kernel: each suggestion assigns every parameter a member of its domain',
          'radices 1..3 x 1..3 x 0..2, all indices, count 1..3'),
    ] + [
        O('C03.hosted_%s' % n.lower(), 'harness.c03_hosted', 'hosted_in_space', 300, 900,
          '%s as hosted by the service (real policy factory, policy rebuilt per request, state through metadata): the '
          'configuration is refused with an error or every suggestion assigns each parameter once, inside its domain' % n,
          '8 boundary search-space shapes (singletons, ints around 2**24 / 2**53, negative/huge/tiny ranges, LOG/REVERSE_LOG, '
          'partly boolean) x 5 batch-size sequences x 3 history patterns (all completed / infeasible + active mixed in)',
          env={'VERIF_SLICE': str(i)}, no_validate=True)
        for i, n in enumerate(['QUASI_RANDOM_SEARCH', 'NSGA2', 'EAGLE_STRATEGY', 'HARMONICA', 'BOCS', 'CMA_ES',
                               'RANDOM_SEARCH', 'GRID_SEARCH', 'SHUFFLED_GRID_SEARCH'])
    ])

PROPS['C12'] = dict(
    level='model_checking',
    encoded=['IdDeduplicatingTrialLoader.get_newly_completed_trials/get_active_trials/dump/load/clear',
             '_SerializableDesignerPolicyBase.suggest/_initialize_designer/dump/load',
             'PartiallySerializableDesignerPolicy._restore_designer', 'DesignerPolicy.suggest',
             'InRamPolicySupporter.GetTrials/study_descriptor/_UpdateMetadata'],
    bounds='trial ids 1..3 (thorough 1..4), each absent/ACTIVE/REQUESTED/COMPLETED/INFEASIBLE(/STOPPING), any subset '
           'incorporated (invariant: only ids completed at the time), policy kept alive / rebuilt+restored / rebuilt '
           'with state lost / rebuilt-from-scratch DesignerPolicy; one suggest step',
    outside='more than 4 trial ids; histories in which a deleted id is re-used by a later trial (needs the service: see '
            'service-level obligations)',
    obligations=[
        O('C12.step3_alive', 'harness.c12_cache', 'step3_alive', 200, 600,
          'policy kept alive: update = (COMPLETED \\ incorporated, all ACTIVE); cache invariant re-established', '3 ids'),
        O('C12.step3_restored', 'harness.c12_cache', 'step3_restored', 240, 600,
          'policy rebuilt from the persisted metadata: same', '3 ids'),
        O('C12.step3_lost', 'harness.c12_cache', 'step3_lost', 200, 600,
          'policy rebuilt, state lost: fresh designer gets all COMPLETED + all ACTIVE', '3 ids'),
        O('C12.step3_corrupt', 'harness.c12_cache', 'step3_corrupt_designer_state', 240, 600,
          'policy rebuilt, designer state undecodable but cache state intact: fresh designer gets ALL completed trials '
          '(never a half-restored pair)', '3 ids'),
        O('C12.step3_scratch', 'harness.c12_cache', 'step3_scratch', 120, 600,
          'DesignerPolicy (rebuilt per request): complete current set of completed and active trials', '3 ids, 6 kinds'),
    ] + [
        O('C12.step4_slice%d' % k, 'harness.c12_cache', 'step4', None, 1500,
          'same with 4 ids and STOPPING trials', '4 ids x 6 kinds, slice %d/12' % k, env={'VERIF_SLICE': str(k)})
        for k in range(12)
    ])

_C01_BOUND = ('study missing or in any of 4 states; trial 1 absent or in any of 5 states with 0..1 measurements; '
              'bystander trial absent/ACTIVE/SUCCEEDED; target id existing/bystander/missing')
PROPS['C01'] = dict(
    level='model_checking',
    encoded=['VizierServicer.CreateTrial/GetTrial/ListTrials/AddTrialMeasurement/CompleteTrial/StopTrial/DeleteTrial/'
             'SetStudyState/DeleteStudy/GetStudy', 'grpc_util.handle_exception', 'NestedDictRAMDataStore.*',
             'resources.*'],
    bounds='one RPC from every pre-state: ' + _C01_BOUND,
    outside='histories whose relevance needs >= 3 distinct trials; parameter payloads beyond one DOUBLE parameter; '
            'SQL datastore (C07 simulation step)',
    obligations=[
        O('C01.complete_trial', 'harness.c01_lifecycle', 'complete_trial', 600, 1200, 'CompleteTrial vs reference model', _C01_BOUND),
        O('C01.add_measurement', 'harness.c01_lifecycle', 'add_measurement', 200, 600, 'AddTrialMeasurement vs reference model', _C01_BOUND),
        O('C01.stop_trial', 'harness.c01_lifecycle', 'stop_trial', 200, 600, 'StopTrial vs reference model', _C01_BOUND),
        O('C01.delete_trial', 'harness.c01_lifecycle', 'delete_trial', 200, 600, 'DeleteTrial vs reference model', _C01_BOUND),
        O('C01.create_trial', 'harness.c01_lifecycle', 'create_trial', 200, 600, 'CreateTrial vs reference model', _C01_BOUND),
        O('C01.read_calls', 'harness.c01_lifecycle', 'read_calls', 250, 600, 'GetTrial/ListTrials/GetStudy vs reference model', _C01_BOUND),
        O('C01.study_calls', 'harness.c01_lifecycle', 'study_calls', 200, 600, 'SetStudyState/DeleteStudy vs reference model', _C01_BOUND),
    ])

_C02_BOUND = ('N in 1..3, own ACTIVE 0..2, other-worker ACTIVE 0..1, REQUESTED 0..2, completed 0..1, 3 id orders, '
              'Pythia delivery = asked + (-2..+2); then the same call repeated')
PROPS['C02'] = dict(
    level='model_checking',
    encoded=['VizierServicer.SuggestTrials/GetOperation', 'NestedDictRAMDataStore.*', 'SuggestConverter',
             'TrialConverter.to_protos', 'StudyConfig.from_proto'],
    bounds=_C02_BOUND,
    outside='more than 3 own / 3 requested trials; SQL datastore (C07); vizier_client polling loop',
    obligations=[
        O('C02.suggest_order%d' % k, 'harness.c02_suggest', 'suggest_step_order%d' % k, 300, 900,
          'exactly N (or all delivered), own ACTIVE first then REQUESTED then new, fresh increasing ids, surplus '
          'queued REQUESTED, other workers untouched, Pythia asked iff needed; repeated call is sticky', _C02_BOUND)
        for k in range(3)
    ] + [
        O('C02.suggest_gaps', 'harness.c02_suggest', 'suggest_step_gaps', 200, 600,
          'same with holes in the id sequence (trials deleted earlier): new ids still exceed every existing id',
          'ids 1,4,5.. or 3,4,5..; N 1..3, own 0..2, REQUESTED 0..1, completed 0..1, delivery +0..+1'),
        O('C02.suggest_big', 'harness.c02_suggest', 'suggest_step_big', None, 1500, 'same, larger counts',
          'N in 1..6, own 0..3, REQUESTED 0..3, delivery offset -1..+3'),
    ])

_C06_BOUND = ('fault kind in {RuntimeError, grpc.RpcError, ValueError, KeyError, custom Exception, mis-delivery by '
              '-2..+2, metadata for a missing trial}, at first call or every call; 0..1 own ACTIVE, 0..1 REQUESTED, N 1..3')
PROPS['C06'] = dict(
    level='model_checking',
    encoded=['VizierServicer.SuggestTrials/CheckTrialEarlyStoppingState/CompleteTrial', 'NestedDictRAMDataStore '
             'operation tables', 'SuggestConverter/EarlyStopConverter', 'metadata_util'],
    bounds=_C06_BOUND + '; one follow-up call',
    outside='fault sequences longer than two calls; remote Pythia over real gRPC (C08 transport model)',
    obligations=[
        O('C06.suggest_fault_same_worker', 'harness.c06_faults', 'suggest_fault_same_worker', 300, 900,
          'failure reported in a finished operation; no unfinished operation left; same worker reaches the algorithm again', _C06_BOUND),
        O('C06.suggest_fault_other_worker', 'harness.c06_faults', 'suggest_fault_other_worker', 300, 900,
          'another worker can still obtain suggestions', _C06_BOUND),
        O('C06.suggest_fault_then_complete', 'harness.c06_faults', 'suggest_fault_then_complete', 300, 900,
          'existing trials can still be completed; lifecycle invariants hold', _C06_BOUND),
        O('C06.earlystop_fault', 'harness.c06_faults', 'earlystop_fault', 200, 600,
          'failing early-stopping algorithm is reported and a later check reaches the algorithm again',
          '5 exception classes, first/every call, ACTIVE/STOPPING trial, with/without an old finished operation'),
    ])


def _pareto_obls():
  out = []
  quick_algos = ['naive', 'fast0', 'fast1', 'fast2', 'jax', 'fastjax1', 'frontier2', 'frontier3', 'nsga2rank']
  for a in quick_algos:
    out.append(O('C11.%s_3x2' % a, 'harness.c11_pareto', 'points_3x2', 120, 600,
                 '%s agrees with the non-dominance definition on every order type' % a,
                 '3 points x 2 coordinates: all 169 order types (ties, duplicates included), coordinates unbounded',
                 env={'VERIF_PARETO': a}))
  for a in ['naive', 'fast1', 'jax']:
    out.append(O('C11.%s_3x1' % a, 'harness.c11_pareto', 'points_3x1', 60, 300, '%s, single coordinate' % a,
                 '3 points x 1 coordinate', env={'VERIF_PARETO': a}))
    out.append(O('C11.%s_against_1v2' % a, 'harness.c11_pareto', 'against_1v2', 120, 600,
                 '%s.is_pareto_optimal_against, strict and non-strict' % a, '1 point vs 2 points x 2 coordinates',
                 env={'VERIF_PARETO': a}))
  for a in ['naive', 'fast1', 'fast2', 'jax']:
    out.append(O('C11.%s_against_2v1' % a, 'harness.c11_pareto', 'against_2v1', 120, 600,
                 '%s.is_pareto_optimal_against, strict and non-strict (recursive split of the points)' % a,
                 '2 points vs 1 point x 2 coordinates', env={'VERIF_PARETO': a}))
  for a in ['fast1', 'fast2']:
    for k in range(4):
      out.append(O('C11.%s_against_4v1_s%d' % (a, k), 'harness.c11_pareto', 'against_4v1_distinct_x',
                   400 if a == 'fast1' else None, 900,
                   '%s.is_pareto_optimal_against on 4 points with distinct first coordinates (the recursion really splits)' % a,
                   '4 points (x fixed distinct, y arbitrary) vs 1 arbitrary point; slice %d/4 (strictness x side of the against point)' % k,
                   env={'VERIF_PARETO': a, 'VERIF_SLICE': str(k)}))
  for a in ['naive', 'fast1', 'fast2', 'jax', 'nsga2rank']:
    out.append(O('C11.%s_3x3' % a, 'harness.c11_pareto', 'points_3x3', None, 1500, '%s, 3 coordinates' % a,
                 '3 points x 3 coordinates: 2197 order types', env={'VERIF_PARETO': a}))
  for a in ['naive', 'fast1', 'fast2', 'fast3', 'jax']:
    for k in range(9):
      out.append(O('C11.%s_4x2_s%d' % (a, k), 'harness.c11_pareto', 'points_4x2', None, 1500, '%s, 4 points' % a,
                   '4 points x 2 coordinates: 5625 order types, slice %d/9' % k,
                   env={'VERIF_PARETO': a, 'VERIF_SLICE': str(k)}))
  for a in ['naive', 'fast1', 'jax']:
    out.append(O('C11.%s_against_2v2' % a, 'harness.c11_pareto', 'against_2v2', None, 2400,
                 '%s.is_pareto_optimal_against' % a, '2 points vs 2 points x 2 coordinates', env={'VERIF_PARETO': a}))
  out += [
      O('C11.list_optimal_2metrics', 'harness.c11_pareto', 'list_optimal_2metrics', 300, 900,
        'ListOptimalTrials = non-dominated SUCCEEDED trials carrying every metric, under MAXIMIZE/MINIMIZE goals',
        '3 trials (SUCCEEDED / missing metric / INFEASIBLE / ACTIVE) x all order types of 2 metrics'),
      O('C11.list_optimal_single', 'harness.c11_pareto', 'list_optimal_single', 120, 600,
        'single-objective: all trials attaining the best value', '3 trials, all order types'),
      O('C11.list_optimal_nan', 'harness.c11_pareto', 'list_optimal_nan', 120, 600,
        'a trial whose objective is NaN is never reported', '3 SUCCEEDED trials, trial 1 objective NaN'),
      O('C11.best_trials_multi', 'harness.c11_pareto', 'best_trials_multi', 200, 600,
        'InRamPolicySupporter.GetBestTrials (multi-objective)', '3 trials (feasible / infeasible / ACTIVE), 2 metrics'),
      O('C11.best_trials_safety', 'harness.c11_pareto', 'best_trials_safety', 150, 600,
        'GetBestTrials with two safety metrics: a trial violating either one is never reported; both configuration orders',
        '3 trials, all order types of the objective x sign of the two safety margins'),
      O('C11.best_trials_single', 'harness.c11_pareto', 'best_trials_single', 120, 600,
        'InRamPolicySupporter.GetBestTrials (single objective): all tied top trials', '3 trials'),
  ]
  return out


PROPS['C11'] = dict(
    level='model_checking',
    encoded=['NaiveParetoOptimalAlgorithm.is_pareto_optimal/is_pareto_optimal_against',
             'FastParetoOptimalAlgorithm (thresholds 0..3, naive and JAX base)', 'xla_pareto.is_frontier/'
             'JaxParetoOptimalAlgorithm', 'nsga2._pareto_rank', 'VizierServicer.ListOptimalTrials',
             'InRamPolicySupporter.GetBestTrials'],
    bounds='order-type partition: n <= 3 points x d <= 2 coordinates in the quick tier (n=4,d=2 and n=3,d=3 thorough), '
           'coordinates are unbounded integers (all order types incl. ties and duplicates)',
    outside='n*d > 9; NaN inside the library routines (+-inf is covered as top/bottom element of each order type); objective values that collide in float32 (GetBestTrials '
            'converts labels to float32); SafetyChecker warping',
    assumptions=['comparison-only data dependence of the numeric Pareto routines (read off the code)'],
    obligations=_pareto_obls())

_SYM = {'PB_BACKEND': 'sym'}
_SYMFF = {'PB_BACKEND': 'sym', 'VERIF_FINITE_FLOATS': '1'}
PROPS['C09'] = dict(
    level='model_checking',
    encoded=['proto_converters.ParameterConfigConverter/ParameterValueConverter/MeasurementConverter/'
             'MetricInformationConverter/TrialConverter/TrialSuggestionConverter/MetadataDeltaConverter/SuggestConverter',
             'oss.StudyConfig.to_proto/from_proto', 'metadata_util.*', 'automated_stopping'],
    bounds='symbolic leaves: bounds/defaults/metric values all reals (nan/inf where admitted), ints unbounded, strings <= 1-2 '
           'chars, <= 3 feasible values, <= 2 metrics, conditional depth <= 2, times from {0,1,500000,999999} microseconds',
    outside='float rounding of the seconds/nanos split; search spaces deeper than 2 levels; symbolic datetimes',
    assumptions=['protobuf runtime = env/symproto model (validated per path on upb and by the setup self-test)'],
    obligations=[
        O('C09.config_double', 'harness.c09_wire', 'config_double', 150, 600, 'DOUBLE ParameterConfig round trip incl. default 0.0 and scale types', env=_SYM),
        O('C09.config_integer', 'harness.c09_wire', 'config_integer', 90, 600, 'INTEGER ParameterConfig round trip incl. default 0', env=_SYM),
        O('C09.config_discrete', 'harness.c09_wire', 'config_discrete', 300, 900, 'DISCRETE ParameterConfig round trip', env=_SYMFF),
        O('C09.config_categorical', 'harness.c09_wire', 'config_categorical', 120, 600, 'CATEGORICAL/boolean ParameterConfig round trip incl. default ""', env=_SYM),
        O('C09.config_conditional', 'harness.c09_wire', 'config_conditional', 300, 1200, 'conditional search space of depth 1..2 survives', env=_SYMFF),
        O('C09.measurement', 'harness.c09_wire', 'measurement', 150, 600, 'Measurement round trip, elapsed time to the microsecond', env=_SYM),
        O('C09.metric_information', 'harness.c09_wire', 'metric_information', 90, 600, 'MetricInformation incl. safety config', env=_SYM),
    ] + [
        O('C09.trial_%s_m%d' % (n.lower(), m), 'harness.c09_wire', 'trial_roundtrip', 400, 900,
          'Trial round trip, all parameter kinds (symbolic values), ids 1 / 12 / 2**40, creation/completion time patterns; '
          'trial status %s, %d intermediate measurement(s)' % (n, m),
          env=dict(_SYMFF, VERIF_SLICE=str(k * 2 + m)))
        for k, n in enumerate(['ACTIVE', 'REQUESTED', 'STOPPING', 'COMPLETED', 'INFEASIBLE']) for m in (0, 1)
    ] + [
        O('C09.suggestion_and_delta', 'harness.c09_wire', 'suggestion_and_delta', 300, 900, 'SuggestDecision with TrialSuggestion + MetadataDelta', env=_SYMFF),
        O('C09.study_config', 'harness.c09_wire', 'study_config_roundtrip', 600, 1500, 'oss.StudyConfig incl. algorithm, noise, stopping spec, metadata', env=_SYMFF),
    ])

PROPS['C17'] = dict(
    level='model_checking',
    encoded=['oss.StudyConfig.trial_parameters/_pytrial_parameters/_trial_to_external_values', 'ParameterValue.cast/as_*',
             'SearchSpaceSelector.parse_multi_dimensional_parameter_name', 'TrialConverter.to_proto/from_proto'],
    bounds='one study config with DOUBLE, INTEGER, DISCRETE (int-valued / float-valued), CATEGORICAL, BOOLEAN, v[0..2] and a '
           'conditional level (two children under different parent values); parameter values symbolic inside their domains',
    outside='other search-space shapes; depth > 2; clients.Trial.parameters over a live service (C08)',
    obligations=[
        O('C17.flat_values', 'harness.c17_external', 'flat_values', 120, 600,
          'value read = value stored; bool as True/False, int-valued discrete as int, other discrete/continuous as float, '
          'categorical as str', env=_SYMFF),
        O('C17.indexed_values', 'harness.c17_external', 'indexed_values', 120, 600,
          'name[i] parameters grouped into one list in index order, for every subset of indices and insertion order', env=_SYMFF),
        O('C17.indexed_many', 'harness.c17_external', 'indexed_many', 120, 600,
          '12 indexed parameters w[0..11] come back in numeric index order for three insertion orders', env=_SYMFF),
        O('C17.conditional_values', 'harness.c17_external', 'conditional_values', 120, 600,
          'only active children presented; unknown or inactive parameters raise ValueError (no silent truncation)', env=_SYMFF),
        O('C17.recreated_study', 'harness.c17_clients', 'recreated_study', 120, 300,
          'clients.Trial.parameters follows the CURRENT declaration after the study was deleted and re-created under the same '
          'owner / id with other declarations (float- vs integer-valued discrete, categorical vs boolean vs continuous)',
          '6 ordered pairs of declarations x read-before-delete yes/no', no_validate=True),
        O('C17.same_name_children', 'harness.c17_clients', 'same_name_children', 120, 300,
          'a child declared differently under different parent values (integer-valued under one, float-valued under the '
          'other) is presented per the declaration active for the trial (clients.Trial.parameters and trial_parameters)',
          '2 parent values x 2 values', no_validate=True),
        O('C17.conditional_other_parents', 'harness.c17_external', 'conditional_other_parents', 240, 600,
          'conditional parents that are boolean, integer-valued discrete or integer: the active child is presented with its '
          'declared type next to the parent (bool as True/False), an inactive child is an error', env=_SYMFF),
    ])


_C07_BOUND = 'pre-state as C01 (study missing/4 states, trial 1 any of 5 states, bystander trial), one RPC, both back ends'
PROPS['C07'] = dict(
    level='model_checking',
    encoded=['VizierServicer.* (all RPCs)', 'NestedDictRAMDataStore.*', 'SQLDataStore.* on real sqlalchemy + sqlite',
             'metadata_util.merge_study_metadata/merge_trial_metadata'],
    bounds=_C07_BOUND,
    outside='file-backed SQLite (identical above sqlalchemy; exercised in C05); pre-states with more than 2 trials; '
            'histories longer than the delete/re-create sequence',
    assumptions=['the SQL side runs real sqlalchemy/sqlite outside tracing on the state concretised by solver branching'],
    obligations=[
        O('C07.eq_complete', 'harness.c07_equiv', 'eq_complete', 400, 900, 'CompleteTrial: same outcome class, response and stored state on RAM and SQL', _C07_BOUND),
        O('C07.eq_trial_mutations', 'harness.c07_equiv', 'eq_trial_mutations', 300, 900, 'AddTrialMeasurement/StopTrial/DeleteTrial', _C07_BOUND),
        O('C07.eq_create_trial', 'harness.c07_equiv', 'eq_create_trial', 120, 600, 'CreateTrial', _C07_BOUND),
        O('C07.eq_reads', 'harness.c07_equiv', 'eq_reads', 250, 900, 'GetTrial/ListTrials/GetStudy', _C07_BOUND),
        O('C07.eq_study_ops', 'harness.c07_equiv', 'eq_study_ops', 300, 900, 'SetStudyState/DeleteStudy/ListOptimalTrials/CreateStudy/ListStudies', _C07_BOUND),
        O('C07.eq_suggest', 'harness.c07_equiv', 'eq_suggest', 150, 600, 'SuggestTrials incl. operation naming', _C07_BOUND),
        O('C07.eq_earlystop', 'harness.c07_equiv', 'eq_earlystop', 120, 600, 'CheckTrialEarlyStoppingState', _C07_BOUND),
        O('C07.update_metadata_active', 'harness.c07_equiv', 'update_metadata_active', 500, 1200,
          'UpdateMetadata on an active study: both back ends = last-writer-wins oracle; an update naming a missing trial '
          'reports an error and changes nothing on either', '1..2 updates over 3 (ns,key) pairs x {study, trial 1, 2, missing}'),
        O('C07.history3', 'harness.c07_equiv', 'eq_history3', 500, None,
          'every history of 3 calls from a menu of 14 (create / suggest by two workers / complete, delete, stop the newest / '
          'delete the oldest / study state changes / delete and re-create the study / metadata / list) gives the same '
          'responses, error classes and stored state on RAM and SQL after every call -- state that only builds up along a '
          'sequence, e.g. id allocation after deletes', '14^3 histories from a fixed 2-trial pre-state', no_validate=True),
        O('C07.update_metadata_bad_id', 'harness.c07_equiv', 'update_metadata_bad_id', 200, 600,
          'an UpdateMetadata naming an impossible trial id (0, -1, non-numeric, path-like) next to a valid item: same error '
          'class on both datastores, nothing stored, nothing left uncommitted'),
        O('C07.update_metadata_other_states', 'harness.c07_equiv', 'update_metadata_other_states', 120, 600,
          'UpdateMetadata on a missing / inactive / completed study', '1 update'),
        O('C07.many_operations', 'harness.c07_equiv', 'many_operations', 120, 300,
          'one worker asking 8..13 times (operation numbers cross 9 -> 10): same answers, operations and trials on both back '
          'ends, every request succeeds', 'n = 8..13, with / without completing in between', no_validate=True),
        O('C07.many_trials', 'harness.c07_equiv', 'many_trials', 90, 300,
          'studies with 8..13 trials: ListTrials order and SuggestTrials (which REQUESTED trial is handed out) agree',
          '8..13 trials alternating REQUESTED/ACTIVE'),
        O('C07.delete_and_recreate', 'harness.c07_equiv', 'delete_and_recreate', 90, 600,
          'delete-study followed by re-creation of the same name: empty study, operation numbering restarts, same on both',
          '0..2 finished suggestion operations before the delete'),
    ] + [
        O('C07.update_metadata_three_s%d' % k, 'harness.c07_equiv', 'update_metadata_three', None, 1500,
          'sequences of 3 metadata updates', '3 updates over 5 (ns,key) pairs, slice %d/10' % k, env={'VERIF_SLICE': str(k)})
        for k in range(10)
    ])

PROPS['C07']['obligations'] += [
    O('C07.history4_o%d' % k, 'harness.c07_equiv', 'eq_history4', None, 1200,
      'same for histories of 4 calls, first call = menu entry %d' % k, '14^3 histories per slice',
      env={'VERIF_SLICE': str(k)}, no_validate=True)
    for k in range(14)
]
PROPS['C10']['encoded'] += ['VizierServicer.UpdateMetadata', 'NestedDictRAMDataStore.update_metadata',
                            'SQLDataStore.update_metadata', 'metadata_util.merge_study_metadata/merge_trial_metadata']
PROPS['C10']['obligations'] += [
    O('C10.store_active', 'harness.c07_equiv', 'update_metadata_active', 500, 1200,
      'stored study/trial metadata after UpdateMetadata = last-writer-wins dict per (namespace, key); every other entry '
      'untouched; a missing trial => error and nothing changed (RAM and SQL)', '1..2 updates, string or packed-proto values'),
    O('C10.store_other_states', 'harness.c07_equiv', 'update_metadata_other_states', 120, 600,
      'UpdateMetadata refused on missing/immutable studies without changing anything'),
]


_C05_BOUND = ('active study; trial 1 absent/REQUESTED/ACTIVE/STOPPING/SUCCEEDED; optional bystander trial; crash index k over '
              'every SQL statement, commit and rollback of the call, plus "right after the acknowledgement"')
PROPS['C05'] = dict(
    level='model_checking',
    encoded=['SQLDataStore.* (real sqlalchemy, real sqlite FILE)', 'VizierServicer.CompleteTrial/AddTrialMeasurement/StopTrial/'
             'DeleteTrial/CreateTrial/SetStudyState/UpdateMetadata/DeleteStudy/SuggestTrials/CheckTrialEarlyStoppingState/CreateStudy'],
    bounds=_C05_BOUND,
    outside='power-loss reordering below the file system; crashes in the middle of a single sqlite write; more than one '
            'crash per run; pre-states with more than 2 trials',
    assumptions=['a killed process leaves exactly the database file + journal side files as they are at that instant'],
    obligations=[
        O('C05.crash_atomic_s%d' % k, 'harness.c05_crash', 'crash_atomic', 300, 900,
          'single-resource calls: after a crash at ANY SQL event the restarted server sees the call fully applied or not at '
          'all (fully once acknowledged); all records readable; legal states; suggest+complete still work',
          _C05_BOUND + '; ops slice %d/4' % k, env={'VERIF_SLICE': str(k)}) for k in range(4)
    ] + [
        O('C05.crash_multi', 'harness.c05_crash', 'crash_multi', None, 1500,
          'multi-statement calls (SuggestTrials, CheckTrialEarlyStoppingState, CreateStudy for an existing / a new owner): records readable, ids unique, '
          'legal states, clients can continue', _C05_BOUND),
    ] + [
        O('C05.crash_multi_s%d' % k, 'harness.c05_crash', 'crash_multi', 300, 900,
          'multi-statement calls (SuggestTrials, CheckTrialEarlyStoppingState, CreateStudy for an existing / a new owner): records readable, ids unique, '
          'legal states, clients can continue', _C05_BOUND + '; slice %d/6' % k, env={'VERIF_SLICE': str(k)})
        for k in (0, 1, 2, 4, 5)
    ])


_C04_RPCS = ['SuggestTrials_w', 'SuggestTrials_v', 'CreateTrial', 'CompleteTrial', 'AddTrialMeasurement', 'StopTrial',
             'DeleteTrial', 'DeleteStudy', 'UpdateMetadata', 'SetStudyState', 'CreateStudy', 'CheckTrialEarlyStoppingState',
             'DeleteTrial_requested', 'UpdateMetadata_study', 'CompleteTrial_requested', 'UpdateMetadata_requested']
PROPS['C04'] = dict(
    level='model_checking',
    encoded=['VizierServicer.* RPCs with their lock tables (_owner_name_to_lock, _study_name_to_lock, _operation_lock)',
             'NestedDictRAMDataStore.*'],
    bounds='all ordered pairs (A, B) of 16 RPC kinds; A suspended before its k-th datastore operation for every k (0..11), B '
           'runs until it finishes or blocks, A resumes; executed with two real threads; compared with A;B and B;A; '
           'all ordered triples of 8 RPC kinds likewise (B then C started while A is suspended; 6 serial orders)',
    outside='more than one preemption; four or more concurrent calls, triples outside the 8-kind menu; pre-states other than the stated one',
    assumptions=['one preemption point per schedule; RAM datastore operations are atomic (datastore._lock)'],
    obligations=[
        O('C04.pair_a%d' % i, 'harness.c04_schedules', 'pair', 240, 900,
          'A = %s against every B and every preemption point: outcome serialisable, no deadlock' % n,
          'B over 16 RPC kinds, k in 0..11', env={'VERIF_SLICE': str(i)}, no_validate=True)
        for i, n in enumerate(_C04_RPCS)
    ] + [
        O('C04.triple_a%d' % i, 'harness.c04_schedules', 'triple', 300, 900,
          'three concurrent calls, A = %s suspended at its k-th datastore operation while B then C run until they finish '
          'or block: outcome equals one of the 6 serial orders, no deadlock' % n,
          'B, C over 8 RPC kinds, k in 0..9', env={'VERIF_SLICE': str(i)}, no_validate=True)
        for i, n in enumerate(['CreateTrial', 'DeleteStudy', 'SuggestTrials_v', 'CompleteTrial', 'UpdateMetadata',
                               'SetStudyState', 'DeleteTrial', 'DeleteTrial_requested'])
    ])


_C08_KINDS = ['suggest', 'get_trial', 'complete', 'add_measurement', 'stop', 'delete_trial', 'trials', 'optimal_trials',
              'set_state', 'add_trial', 'parameters', 'delete_study']
PROPS['C08'] = dict(
    level='model_checking',
    encoded=['clients.Study/Trial', 'vizier_client.VizierClient', 'vizier_server.DefaultVizierServer/'
             'DistributedPythiaVizierServer', 'VizierServicer', 'PythiaServicer', 'ServicePolicySupporter', 'stubs_util',
             'grpc_util.handle_exception', 'real grpc on localhost'],
    bounds='one client-level call (12 kinds) after a pre-state: study ACTIVE/ABORTED/COMPLETED, trial 1 absent or in any of 5 '
           'states, optional completed trial 2, target trial existing/missing; RAM and SQL(in-memory) datastores; the three '
           'deployments; the readable trial list afterwards is part of the observation',
    outside='client programs longer than one call after the pre-state; TLS / remote hosts; early-stopping advisory answers',
    obligations=[
        O('C08.%s' % n, 'harness.c08_deploy', 'client_call', 240, 900,
          'client call %s: same result / client-level exception class and same readable state in the in-process, gRPC and '
          'gRPC+separate-Pythia deployments' % n, env={'VERIF_SLICE': str(i)}, no_validate=True)
        for i, n in enumerate(_C08_KINDS)
    ] + [
        O('C08.large_study', 'harness.c08_deploy', 'client_call_large', 200, 600,
          'the same agreement for a study whose proto is large (400 parameters, 20 kB of metadata): suggest / trials / '
          'optimal_trials / set_state / delete on an active, aborted or completed study', '5 call kinds x 3 study states x 2 '
          'datastores', no_validate=True),
        O('C08.early_stop_agree', 'harness.c08_deploy', 'early_stop_agree', 120, 300,
          'with a deterministic early-stopping algorithm a client asking 1..3 times (later questions are answered from the '
          'stored decision) gets the same answers and sees the same trial state in all three deployments',
          'answer True/False x 1..3 questions x trial ACTIVE/STOPPING', no_validate=True),
        O('C08.custom_policy', 'harness.c08_deploy', 'custom_policy', 120, 300,
          'a configured (non-default) policy factory is honoured by all three deployments; a policy that raises (ValueError, '
          'ZeroDivisionError, custom Exception) is reported as the documented RuntimeError in all three and leaves no '
          'unfinished operation', '6 fault kinds (4 in policy.suggest, 2 in the policy factory) x count 1..2 x 3 pre-states', no_validate=True),
        O('C08.endpoint_switch', 'harness.c08_deploy', 'endpoint_switch', 90, 300,
          'a client process that switches environment_variables.server_endpoint talks to the newly selected deployment '
          '(no cached service): a study created on the first is not found on the second', 'all ordered pairs of the 3 '
          'deployments', no_validate=True),
    ])


PROPS['C15'] = dict(
    level='model_checking',
    encoded=['converters.core.ModelInputArrayBijector.scaler_from_spec/onehot_embedder_from_spec',
             'DefaultModelInputConverter.convert/_to_parameter_value/to_parameter_values/_convert_index',
             'DefaultModelOutputConverter.convert/to_metrics', 'TrialToArrayConverter', 'ContinuousCategoricalFeatureMapper'],
    bounds='symbolic real (nan, +-inf) decoded value / scaled feature against 7 representative bound pairs, 5 discrete sets, '
           'INTEGER ranges of width 0..4, 1..5 categories; native round trips over all feasible points x converter options '
           '(scale, one-hot, oov padding, continuification threshold 0/10/inf, LINEAR/LOG/REVERSE_LOG) and all 6 column '
           'layouts of a categorical + continuous + discrete space',
    outside='float32 mode beyond the float32_double obligation; float rounding inside the symbolic kernels; LOG/REVERSE_LOG outside the listed feasible points; '
            'jnp_converters padding schedules (the unpadded converter is covered by jnp_roundtrip); embedder.ProblemAndTrialsScaler; safety-metric label shifting',
    assumptions=['core.np = engine/npshim on symbolic scalars (self-tested against numpy)'],
    obligations=[
        O('C15.linear_scaling', 'harness.c15_encoding', 'linear_scaling', 120, 600,
          'linear scaler: features in [0,1], low->0, high->1, strictly monotone, backward(forward(x)) == x over the reals', env=_FF),
        O('C15.decode_double', 'harness.c15_encoding', 'decode_double', 120, 600,
          'decoding ANY real / nan / inf for a DOUBLE parameter yields None or a value inside the bounds (clipping on)'),
        O('C15.decode_continuified', 'harness.c15_encoding', 'decode_continuified', 120, 600,
          'continuified INTEGER/DISCRETE: any real snaps to the nearest member of the domain; nan/inf -> None'),
        O('C15.decode_index', 'harness.c15_encoding', 'decode_index', 90, 600,
          'index-coded DISCRETE/INTEGER/CATEGORICAL: index < n decodes to the n-th feasible value, >= n to None (all ints)'),
        O('C15.roundtrip_single', 'harness.c15_encoding', 'roundtrip_single', 400, 900,
          'encode -> (scale) -> (one-hot) -> decode returns the original value for every feasible point and option '
          'combination; exactly one active one-hot entry; scaled features in the unit interval with the documented orientation'),
        O('C15.roundtrip_space', 'harness.c15_encoding', 'roundtrip_space', 200, 600,
          'TrialToArrayConverter (+ ContinuousCategoricalFeatureMapper map/unmap) round trip on every column layout'),
        O('C15.float32_double', 'harness.c15_encoding', 'float32_double', 120, 300,
          'float32 features, DOUBLE parameter with bounds a float32 cannot represent: feasible points round-trip to float32 '
          'accuracy; with clipping on ANY feature value (far outside, one ulp outside, 1e30) decodes into [low, high]',
          '6 bound pairs x scale on/off x clip on/off x 9 feature values'),
        O('C15.jnp_roundtrip', 'harness.c15_encoding', 'jnp_roundtrip', 300, 900,
          'jnp_converters.TrialToContinuousAndCategoricalConverter (the converter of the GP designers): to_parameters(to_features(t)) '
          '== t for a categorical + double + integer + discrete space, continuous block inside the unit cube',
          '6 column layouts x continuification threshold 0/10/inf x 81 points', no_validate=True),
        O('C15.onehot_decode_any', 'harness.c15_encoding', 'onehot_decode_any', 60, 300,
          'any content of a padded one-hot block (all equal, OOV column largest, negative, huge) decodes to a feasible category',
          '8 rows x 1..3 categories x float32/64'),
        O('C15.tiny_ranges', 'harness.c15_encoding', 'tiny_ranges', 60, 300,
          'valid DOUBLE ranges that are narrow in absolute terms (1e-10..1e-8, 1000..1000.005, ...): low -> 0, high -> 1, '
          'round trip to 1e-6 of the width', '5 ranges x 5 points'),
        O('C15.labels_roundtrip', 'harness.c15_encoding', 'labels_roundtrip', 60, 300,
          'objective labels: to_metrics(convert(m)) == m under either sign convention; missing measurement -> NaN'),
    ])


PROPS['C06']['obligations'].append(
    O('C06.earlystop_policy_fault', 'harness.c06_faults', 'earlystop_policy_fault', 120, 300,
      'real PythiaServicer, policy whose early_stop raises (ValueError, NotImplementedError, ZeroDivisionError, custom, KeyError): '
      'the caller sees an error, the operation is not left ACTIVE, the next check after the recycle period reaches the '
      'algorithm again', '5 exception classes x first/every call x with/without an old finished operation', no_validate=True))
PROPS['C06']['obligations'].append(
    O('C06.remote_pythia_fault', 'harness.c08_deploy', 'custom_policy', 120, 300,
      'a policy raising ValueError / ZeroDivisionError / a custom Exception is reported (finished operation with an error -> '
      'RuntimeError at the client) in-process, over gRPC and through a separate Pythia server, and the next request '
      'terminates', 'real gRPC deployments; 4 fault kinds x count 1..2 x 3 pre-states', no_validate=True))
PROPS['C06']['encoded'] += ['PythiaServicer.Suggest over real gRPC (DistributedPythiaVizierServer)', 'vizier_client.get_suggestions']


PROPS['C12']['encoded'] += ['VizierServicer.SuggestTrials/CompleteTrial/DeleteTrial/CreateTrial', 'PythiaServicer.Suggest',
                            'ServicePolicySupporter.GetTrials', 'TrialFilter']
PROPS['C12']['obligations'] += [
    O('C12.history_q%d' % k, 'harness.c12_service', 'history_quick', 200, None,
      'real service, policy rebuilt per request: every completed trial instance is delivered exactly once, each update '
      'carries exactly the ACTIVE trials of that moment', '3 suggests, 4 environment actions from a 7-action and a 6-action menu; '
      'slice %d/7' % k, env={'VERIF_SLICE': str(k)}, no_validate=True)
    for k in range(7)
] + [
    O('C12.history_keep_q%d' % k, 'harness.c12_service', 'history_quick', 200, 600,
      'the same histories with a policy factory that keeps the policy (and the supporter it was built on) alive across '
      'requests, as a long-lived Pythia process may', 'slice %d/7' % k,
      env={'VERIF_SLICE': str(k), 'VERIF_C12_KEEP': '1'}, no_validate=True)
    for k in range(7)
] + [
    O('C12.history_s%d' % k, 'harness.c12_service', 'history', None, 1500,
      'real service, policy rebuilt per request: over the whole history every completed trial instance is delivered exactly '
      'once, each update carries exactly the ACTIVE trials of that moment',
      '3 suggests with up to 4 environment actions (12 kinds incl. deletes, externally added completed trials (one or nine '
      'at once), infeasible without a reason, second worker); first action = #%d' % k, env={'VERIF_SLICE': str(k)},
      no_validate=True)
    for k in range(12)
]
PROPS['C12']['outside'] = 'more than 4 trial ids in the one-step obligations; histories longer than 3 suggests / 4 actions'


PROPS['C10']['encoded'] += ['common.Metadata.ns/abs_ns/__setitem__/__delitem__/update/attach/all_items']
PROPS['C10']['obligations'] += [
    O('C10.views4_s%d' % k, 'harness.c10_views', 'view_history4', 400, None,
      'Metadata handles (root, two views held from the start, a second object that gets attached) always show the last-written '
      'value of every (namespace, key): every sequence of 4 operations from a menu of 12 (writes through held and fresh '
      'views, delete, update, attach at root / below) against a dictionary model', '12^4 sequences, slice %d/4' % k,
      env={'VERIF_SLICE': str(k)}, no_validate=True)
    for k in range(4)
] + [
    O('C10.views5_o%d' % k, 'harness.c10_views', 'view_history', None, 1500,
      'same for sequences of 5 operations, first operation = menu entry %d' % k, '12^4 sequences per slice',
      env={'VERIF_SLICE': str(k)}, no_validate=True)
    for k in range(12)
]
PROPS['C10']['encoded'] += ['VizierServicer.SuggestTrials metadata path', 'PythiaServicer.Suggest', 'MetadataDeltaConverter']
PROPS['C10']['obligations'] += [
    O('C10.algo_delta_ram', 'harness.c10_algo_md', 'algo_delta_ram', 300, 900,
      'a MetadataDelta issued by the hosted algorithm through SuggestTrials (study-only / trial-only / mixed; root, reserved '
      'and colliding-looking namespaces) is stored exactly, last writer wins, user entries untouched (RAM)',
      '2 rounds, 2+1 writes over {study, trial 1, trial 2} x 4 namespaces x 3 keys', no_validate=True),
    O('C10.algo_delta_sql', 'harness.c10_algo_md', 'algo_delta_sql', 300, 900, 'same on the SQL datastore',
      '2 rounds, 2+1 writes over {study, trial 1, trial 2} x 4 namespaces x 3 keys', no_validate=True),
]


PROPS['C02']['encoded'] += ['vizier_client.VizierClient.get_suggestions', 'PollingDelay']
PROPS['C02']['obligations'].append(
    O('C02.client_get_suggestions', 'harness.c02_client', 'get_suggestions', 120, 300,
      'client side: polls the operation until done (0..3 polls), returns exactly its trials, FAILED_PRECONDITION -> [], '
      'other RpcError raised, operation error -> RuntimeError', 'scripted service stub', no_validate=True))
PROPS['C02']['outside'] = 'more than 3 own / 3 requested trials; SQL datastore (C07)'


PROPS['C01']['obligations'] += [
    O('C01.sym_complete', 'harness.c01_symbolic', 'complete', 400, 900,
      'CompleteTrial with SYMBOLIC study state (any int32), trial state and metric values through the real servicer on '
      'symproto: outcome class, response, stored state = reference model; failed call changes nothing',
      'study state 0..2^31-1, trial absent or any of 5 states, 0..1 measurements, all finite reals', env=_SYMFF),
    O('C01.sym_measure_stop_delete', 'harness.c01_symbolic', 'measure_stop_delete', 300, 900,
      'AddTrialMeasurement / StopTrial / DeleteTrial with symbolic study state, trial state and metric value', env=_SYMFF),
]
PROPS['C01']['assumptions'] = PROPS['C01'].get('assumptions', []) + [
    'sym_* obligations: protobuf runtime = env/symproto (validated by the setup self-test and per path on upb)']


PROPS['C02']['obligations'].append(
    O('C02.sym_any_n', 'harness.c02_symbolic', 'suggest_any_n', 450, 900,
      'SuggestTrials for EVERY suggestion_count N >= 1 (symbolic, on symproto): exactly N trials or all that exist/were '
      'delivered, surplus queued as REQUESTED, nothing dropped, Pythia asked for exactly the missing amount',
      'N unbounded; own ACTIVE 0..2, REQUESTED 0..2, delivery 0..3', env=_SYM))


PROPS['C04']['obligations'] += [
    O('C04.pair_sql_a%d' % i, 'harness.c04_schedules', 'pair', 300, 900,
      'same schedules on the SQL datastore (in-memory sqlite, one shared connection): A = %s' % n,
      'B over 16 RPC kinds, k in 0..11', env={'VERIF_SLICE': str(i), 'VERIF_C04_SQL': '1'}, no_validate=True)
    for i, n in enumerate(_C04_RPCS)
]
PROPS['C04']['outside'] = 'more than one preemption; four or more concurrent calls, triples outside the 8-kind menu; pre-states other than the stated one'
PROPS['C04']['encoded'] += ['SQLDataStore.*']


_C01_MENU = ['CreateStudy', 'SetInactive', 'SetActive', 'DeleteStudy', 'CreateTrial', 'Suggest', 'CompleteNewest', 'AddMeasurement1',
             'StopTrial1', 'DeleteTrial1', 'CompleteTrial1NoFinal', 'SetCompleted']
PROPS['C01']['obligations'] += [
    O('C01.history_%d' % i, 'harness.c01_history', 'history', 200, 600,
      'histories through the public API on one long-lived servicer (CreateStudy, Suggest, then 4 calls starting with %s): '
      'every response and the stored state equal the reference model after every call' % n,
      '12^3 continuations per first call; RAM datastore', env={'VERIF_SLICE': str(i)}, no_validate=True)
    for i, n in enumerate(_C01_MENU)
] + [
    O('C01.history_sql_%d' % i, 'harness.c01_history', 'history', None, 900,
      'same histories on the SQL datastore, first call %s' % n, '12^3 continuations',
      env={'VERIF_SLICE': str(i), 'VERIF_C01_SQL': '1'}, no_validate=True)
    for i, n in enumerate(_C01_MENU)
]
PROPS['C01']['outside'] = 'histories longer than 6 calls; parameter payloads beyond one parameter'


PROPS['C20'] = dict(
    level='model_checking',
    level_text='PARTIAL claim. The wrapper experimenters\' own Python code is executed symbolically over an UNINTERPRETED '
               'base objective (a stub experimenter returning solver-chosen real values and recording the evaluated point): '
               'z3 exhausts all paths or yields a counterexample replayed natively. Points that must pass through the numpy '
               'converters, and the synthetic functions themselves, are covered only on finite dyadic grids / listed '
               'points chosen by solver branching and run natively.',
    encoded=['SignFlipExperimenter', 'NormalizingExperimenter', 'HyperCubeExperimenter', 'DiscretizingExperimenter(+create_with_grid)',
             'ShiftingExperimenter', 'PermutingExperimenter', 'SwitchExperimenter', 'NoisyExperimenter(+from_type, _create_noise_fn)',
             'NumpyExperimenter', 'MultiObjectiveNumpyExperimenter', 'HashingInfeasibleExperimenter',
             'ParamRegionInfeasibleExperimenter', 'SparseExperimenter', 'BBOBExperimenterFactory', 'bbob.Sphere/Schwefel/StepEllipsoidal',
             'simplekd.SimpleKDExperimenter'],
    bounds='objective values: all reals (+nan/inf for NumpyExperimenter); discretisation: 1..3 real values; batches 0..3; '
           'shift / hyper-cube / permutation points on dyadic grids (shift k/4, |k|<=3, 1..2 dims; 5x5 cube points; 8 seeds); '
           '18 experimenter kinds (wrappers over Sphere/Schwefel/StepEllipsoidal/SimpleKD/stub, 2-deep stackings) x 3 points',
    outside='the numeric values of the synthetic functions (BBOB rotations, float array programs); BBOB functions that '
            'do not run under this image\'s numpy 2.x (float() of 1-element arrays: Rastrigin, Discus, ...); deeper '
            'stackings; noise distributions (only reproducibility and bookkeeping); float rounding; benchmark_runner',
    assumptions=[],
    obligations=[
        O('C20.sign_flip', 'harness.c20_experimenters', 'sign_flip', 200, 600,
          'sign flip negates exactly the objectives (all metrics when asked), flips both goals, is an involution, keeps '
          'parameters, passes infeasible trials through', env=_FF),
        O('C20.numpy_value', 'harness.c20_experimenters', 'numpy_value', 200, 600,
          'NumpyExperimenter: finite value -> completed with the statement\'s metric, nan/inf -> infeasible; impl sees the '
          'suggested point; parameters kept; batches 0..2'),
        O('C20.multiobjective_value', 'harness.c20_experimenters', 'multiobjective_value', 100, 300,
          'MultiObjectiveNumpyExperimenter names the values after the statement\'s metrics, in order', env=_FF),
        O('C20.normalizing_order', 'harness.c20_experimenters', 'normalizing_order', 200, 600,
          'normalising keeps the order (and equality) of any two objective values, for 3 normalisation profiles of 100 samples and for 1 and 2 samples', env=_FF),
        O('C20.discretizing', 'harness.c20_experimenters', 'discretizing', 300, 900,
          'discretising evaluates the base objective at float(value) of the chosen feasible value, other parameters '
          'untouched, suggestion restored with its original type; statement lists the values', env=_FF),
        O('C20.discretizing_rejects', 'harness.c20_experimenters', 'discretizing_rejects', 100, 300,
          'a discretisation value is accepted iff inside the base bounds', env=_FF),
        O('C20.switch_value', 'harness.c20_experimenters', 'switch_value', 200, 600,
          'switch evaluates exactly the selected experimenter and reports its objective as switch_metric; infeasible '
          'evaluations stay infeasible', env=_FF),
        O('C20.noisy_bookkeeping', 'harness.c20_experimenters', 'noisy_bookkeeping', 300, 600,
          'noise wrappers keep the un-noised value as <name>_before_noise, apply the noise function to the value; seeded '
          'library noise (10 types x 4 seeds, 120 draws, runs started from different global numpy/python RNG states) is reproducible and its stream advances', env=_FF),
        O('C20.shifting_grid', 'harness.c20_experimenters', 'shifting_grid', 300, 900,
          'shifting evaluates the base objective at x - shift for every point of the (restricted) wrapper space, restores '
          'the suggestion, restricts bounds as documented', 'dyadic grid: shift k/4, points lo + k/4, 1..2 dims'),
        O('C20.permuting_grid', 'harness.c20_experimenters', 'permuting_grid', 200, 600,
          'permuting applies a bijection of the feasible values of exactly the named parameters, same seed same '
          'permutation, suggestion restored', '8 seeds, categorical(3) + two discrete parameters with overlapping values + double'),
        O('C20.hypercube_grid', 'harness.c20_experimenters', 'hypercube_grid', 200, 600,
          'hyper-cube wrapper evaluates the base at lo + h * (hi - lo)', '5x5 cube points x 15 boxes'),
        O('C20.hypercube_many', 'harness.c20_experimenters', 'hypercube_many', 120, 300,
          'hyper-cube wrapper with 11..12 coordinates (h10 sorts before h2 as a string): every base parameter receives its own '
          'coordinate', '12 coordinate patterns x 11..12 dims'),
        O('C20.contract', 'harness.c20_experimenters', 'contract', 300, 900,
          'every kind: each trial of a batch is completed with finite values for all metrics of the statement or marked '
          'infeasible, parameters (values and types) as suggested, batch == one-at-a-time', '18 kinds x batch 0..3 x 3 points'),
        O('C20.built_from_copy', 'harness.c20_experimenters', 'built_from_copy', 100, 300,
          'editing the problem statement an experimenter was BUILT from (after construction) changes neither its statement '
          'nor its evaluation nor wrappers built later', 'NumpyExperimenter / MultiObjectiveNumpyExperimenter x 3 edits'),
        O('C20.factory_independent', 'harness.c20_experimenters', 'factory_independent', 200, 600,
          'two experimenters made by one seeded SingleObjectiveExperimenterFactory (noise x normalisation) are independent and '
          'reproduce the stream of a fresh factory, whatever was evaluated on the first in between',
          '3 noise settings x 3 seeds / normalisation sample counts (0, 5, 1) x 0..3 evaluations in between'),
        O('C20.by_value', 'harness.c20_experimenters', 'by_value', 200, 600,
          'every kind: editing a returned problem statement (parameter, metric, goals, metadata) changes neither the next '
          'statement nor the evaluation', '18 kinds x 3 edits'),
    ])


_NATIVE_NOTE = (' PARTIAL claim: besides the symbolic obligations, some obligations of this property only let the solver choose a '
                'CONFIGURATION (algorithm, boundary search-space shape, schedule, restart subset, grid point) and run the '
                'numpy code natively on every configuration of the stated finite space; those make no claim about values '
                'inside the numpy code (see DESIGN.md 2.4).')
_DEFAULT_LEVEL = ('Bounded symbolic execution of the real code: for each obligation z3 either exhausts all feasible paths of the '
                  'harness (the property then holds for every input inside the stated bound) or yields a concrete '
                  'counterexample that is replayed natively.')
for _p in ('C03', 'C13', 'C15'):
  PROPS[_p]['level_text'] = _DEFAULT_LEVEL + _NATIVE_NOTE
