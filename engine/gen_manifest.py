"""Regenerates /verif/MANIFEST.json from engine/registry.py (run after changing the registry)."""
import json
import os
import sys

VERIF = os.path.dirname(os.path.dirname(os.path.abspath(__file__)))
sys.path.insert(0, VERIF)
from engine import registry  # noqa: E402

NA = {
    'C14': 'seed -> suggestion runs through MT19937/PCG64/scipy-Halton/JAX-Threefry bit generation and C/XLA float '
           'pipelines; not symbolically executable, and uninterpreted RNG stubs would assume the claim (DESIGN 5)',
    'C18': 'output_warpers.py is float numpy/scipy/TFP code (sqrt, log, normal quantiles, Yeo-Johnson, inner '
           'optimiser) behind the broken equinox import; needs FP + transcendentals, no SMT encoding within reach',
    'C19': 'vectorized_base/eagle_strategy optimisers are JAX/XLA programs (jit, lax.scan, PRNG keys) over eqx.Module; '
           'XLA computations are unreachable for a Python-level symbolic executor (DESIGN 5)',
}
ALL = ['C%02d' % i for i in range(1, 21)]


def main():
  checks = []
  for pid in ALL:
    if pid not in registry.PROPS:
      continue
    p = registry.PROPS[pid]
    checks.append({
        'property_id': pid,
        'quick_cmd': './check %s --tier quick' % pid,
        'thorough_cmd': './check %s --tier thorough' % pid,
        'evidence_file': 'evidence/%s.json' % pid,
        'replay_cmd_template': './check %s --replay {path}' % pid,
        'engine': 'crosshair-z3',
        'level_claimed': {
            'category': p.get('level', 'model_checking'),
            'text': p.get('level_text', 'Bounded symbolic execution of the real code: for each obligation z3 either '
                        'exhausts all feasible paths of the harness (the property then holds for every input inside '
                        'the stated bound) or yields a concrete counterexample that is replayed natively.'),
            'design_ref': p.get('design_ref', 'DESIGN.md section 3, ' + pid),
        },
        'level_note': p.get('level_note', 'Trusted: CrossHair 0.0.110 models of Python built-ins, z3 5.1.0, the '
                            'harness oracle, listed stubs; bounds and what lies outside are in the evidence file.'),
        'technique': p.get('technique', 'solver-based bounded symbolic execution of the real Python code '
                           '(CrossHair + z3), counterexamples replayed natively'),
    })
  na = []
  for pid in ALL:
    if pid in registry.PROPS:
      continue
    na.append({'property_id': pid, 'reason': NA.get(pid, 'check not built yet (planned, see DESIGN.md section 3)')})
  manifest = {
      'version': 1,
      'setup_cmd': './setup.sh',
      'hooks': {
          'guard': 'GOOGLE_VIZIER_VERIF',
          'enable': 'no hooks in /repo: the machinery shims imports from /verif (env/bootstrap.py) and rebinds module '
                    'globals from the harness side',
          'baseline_off_cmd': 'cd /repo && /venv/bin/python -m pytest -ra -q -p no:cacheprovider --timeout=900 '
                              '--continue-on-collection-errors',
          'source_commits': [],
          'add_only': True,
      },
      'engines': [
          {'name': 'crosshair-z3', 'path': 'engine/', 'serves_properties': [c['property_id'] for c in checks],
           'kind_free_text': 'symbolic execution of /repo Python code with z3 (CrossHair 0.0.110), native replay'},
      ],
      'checks': checks,
      'not_applicable': na,
      'notes': 'Exit codes: 0 held/known findings only, 1 VIOLATION, 3 harness error. See DESIGN.md.',
  }
  json.dump(manifest, open(os.path.join(VERIF, 'MANIFEST.json'), 'w'), indent=1)
  print('claimed', [c['property_id'] for c in checks], 'n/a', [n['property_id'] for n in na])


if __name__ == '__main__':
  main()
