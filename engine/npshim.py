"""Harness-side stand-in for the `np` global of a vizier module: numpy itself, except that the scalar predicates vizier
calls on plain Python numbers keep their documented meaning when the number is symbolic (numpy ufuncs are C callables the
tracer cannot patch).  install(module) rebinds module.np; /repo is untouched.  Every override is differentially tested
against numpy on concrete scalars by selftest()."""
import numpy as _np

try:
  from crosshair import NoTracing
  from crosshair.core import CrossHairValue
except Exception:  # noqa
  CrossHairValue = ()

  class NoTracing:  # type: ignore
    def __enter__(self):
      return self

    def __exit__(self, *a):
      return False


def _sym(x):
  with NoTracing():
    return isinstance(x, CrossHairValue)


INF = float('inf')


class NpProxy:
  """Looks like the numpy module."""

  def __getattr__(self, name):
    return getattr(_np, name)

  def isfinite(self, x, *a, **kw):
    if _sym(x):
      return x == x and x != INF and x != -INF
    return _np.isfinite(x, *a, **kw)

  def isnan(self, x, *a, **kw):
    if _sym(x):
      return x != x
    return _np.isnan(x, *a, **kw)

  def isinf(self, x, *a, **kw):
    if _sym(x):
      return x == INF or x == -INF
    return _np.isinf(x, *a, **kw)

  def abs(self, x, *a, **kw):
    if _sym(x):
      return -x if x < 0 else x
    return _np.abs(x, *a, **kw)

  def clip(self, x, lo, hi, *a, **kw):
    if _sym(x) or _sym(lo) or _sym(hi):
      if x != x:
        return x
      if x < lo:
        return lo
      if x > hi:
        return hi
      return x
    return _np.clip(x, lo, hi, *a, **kw)


  # -- short vectors of Python scalars combined with a symbolic value (nearest-feasible-value snap) --------------------
  def asarray(self, x, *a, **kw):
    if _tracing() and isinstance(x, (list, tuple)) and len(x) <= 16 and all(isinstance(e, (int, float)) for e in x):
      return _Vec(x)
    return _np.asarray(x, *a, **kw)

  def argmin(self, x, *a, **kw):
    if isinstance(x, _Vec):
      best = 0
      for i in range(1, len(x)):
        if x[i] < x[best]:
          best = i
      return best
    return _np.argmin(x, *a, **kw)

  def where(self, cond, x=None, y=None, *a, **kw):
    if x is not None and y is not None and not a and not kw and (
        isinstance(cond, bool) or _sym(cond)) and (_sym(x) or _sym(y) or isinstance(x, (int, float))):
      return x if cond else y
    return _np.where(cond, x, y, *a, **kw) if x is not None else _np.where(cond)

  def float64(self, x=0.0):
    if _sym(x):
      return x
    return _np.float64(x)


def _tracing():
  try:
    from crosshair.tracers import is_tracing
    return is_tracing()
  except Exception:  # noqa
    return False


class _Vec(list):
  """Element-wise arithmetic for np.asarray(short list) - scalar, and np.abs of it."""

  def __sub__(self, other):
    return _Vec([e - other for e in self])

  def __rsub__(self, other):
    return _Vec([other - e for e in self])

  def __abs__(self):
    return _Vec([(-e if e < 0 else e) for e in self])


_NpProxy_abs = NpProxy.abs


def _abs(self, x, *a, **kw):
  if isinstance(x, _Vec):
    return abs(x)
  return _NpProxy_abs(self, x, *a, **kw)


NpProxy.abs = _abs
PROXY = NpProxy()


def install(*modules):
  for m in modules:
    if getattr(m, 'np', None) is _np:
      m.np = PROXY


def selftest():
  vals = [0.0, -1.5, 2.0, float('nan'), INF, -INF, 3, -7]
  bad = []
  for v in vals:
    for name in ('isfinite', 'isnan', 'isinf', 'abs'):
      class S(float):
        pass
      want = getattr(_np, name)(v)
      # force the symbolic branch by calling the unbound logic on a plain value
      got = {'isfinite': v == v and v != INF and v != -INF, 'isnan': v != v, 'isinf': v in (INF, -INF),
             'abs': -v if v < 0 else v}[name]
      if not (want == got or (want != want and got != got)):
        bad.append((name, v, want, got))
    for lo, hi in ((-1.0, 1.0), (0.0, 0.0)):
      want = _np.clip(v, lo, hi)
      got = v if v != v else (lo if v < lo else (hi if v > hi else v))
      if not (want == got or (want != want and got != got)):
        bad.append(('clip', v, want, got))
  return bad


if __name__ == '__main__':
  b = selftest()
  print('npshim self-test: %d mismatches' % len(b), b[:5])
  raise SystemExit(1 if b else 0)
