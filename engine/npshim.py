"""Harness-side stand-in for the `np` global of a vizier module: numpy itself, except that the scalar predicates vizier
calls on plain Python numbers keep their documented meaning when the number is symbolic (numpy ufuncs are C callables the
tracer cannot patch).  install(module) rebinds module.np; /repo is untouched.  Every override is differentially tested
against numpy on concrete scalars by selftest()."""
import numpy as _np

try:
  from crosshair import NoTracing
  from crosshair.core import CrossHairValue
except Exception:  # noqa
  CrossHairValue = ()

  class NoTracing:  # type: ignore
    def __enter__(self):
      return self

    def __exit__(self, *a):
      return False


def _sym(x):
  with NoTracing():
    return isinstance(x, CrossHairValue)


INF = float('inf')


class NpProxy:
  """Looks like the numpy module."""

  def __getattr__(self, name):
    return getattr(_np, name)

  def isfinite(self, x, *a, **kw):
    if _sym(x):
      return x == x and x != INF and x != -INF
    return _np.isfinite(x, *a, **kw)

  def isnan(self, x, *a, **kw):
    if _sym(x):
      return x != x
    return _np.isnan(x, *a, **kw)

  def isinf(self, x, *a, **kw):
    if _sym(x):
      return x == INF or x == -INF
    return _np.isinf(x, *a, **kw)

  def abs(self, x, *a, **kw):
    if _sym(x):
      return -x if x < 0 else x
    return _np.abs(x, *a, **kw)

  def clip(self, x, lo, hi, *a, **kw):
    if _sym(x) or _sym(lo) or _sym(hi):
      if x != x:
        return x
      if x < lo:
        return lo
      if x > hi:
        return hi
      return x
    return _np.clip(x, lo, hi, *a, **kw)


PROXY = NpProxy()


def install(*modules):
  for m in modules:
    if getattr(m, 'np', None) is _np:
      m.np = PROXY


def selftest():
  vals = [0.0, -1.5, 2.0, float('nan'), INF, -INF, 3, -7]
  bad = []
  for v in vals:
    for name in ('isfinite', 'isnan', 'isinf', 'abs'):
      class S(float):
        pass
      want = getattr(_np, name)(v)
      # force the symbolic branch by calling the unbound logic on a plain value
      got = {'isfinite': v == v and v != INF and v != -INF, 'isnan': v != v, 'isinf': v in (INF, -INF),
             'abs': -v if v < 0 else v}[name]
      if not (want == got or (want != want and got != got)):
        bad.append((name, v, want, got))
    for lo, hi in ((-1.0, 1.0), (0.0, 0.0)):
      want = _np.clip(v, lo, hi)
      got = v if v != v else (lo if v < lo else (hi if v > hi else v))
      if not (want == got or (want != want and got != got)):
        bad.append(('clip', v, want, got))
  return bad


if __name__ == '__main__':
  b = selftest()
  print('npshim self-test: %d mismatches' % len(b), b[:5])
  raise SystemExit(1 if b else 0)
