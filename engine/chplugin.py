"""CrossHair environment stubs. Every stub is part of each claim and is listed in the evidence (STUBS).

Selected through VERIF_STUBS (comma list); default = all.
"""
import builtins as _b
import os
import time as _time

from crosshair import NoTracing
from crosshair import core as _core
from crosshair import fnutil as _fnutil
from crosshair.core import CrossHairValue
from crosshair.core import deep_realize as _deep_realize
from crosshair.libimpl import builtinslib as _bl

_ALL = ('format', 'hash', 'clock', 'fn_globals', 'logging')
_sel = os.environ.get('VERIF_STUBS')
ENABLED = tuple(_sel.split(',')) if _sel is not None else _ALL

STUBS = {
    'format': 'format()/f-string of a symbolic number -> "<sym>", of a container -> "<container>", of a non-primitive object -> "<TypeName>" (error-message formatting would realise symbolic values)',
    'hash': 'hash() computed natively outside tracing (hash values are never observable in the properties)',
    'clock': 'time.time() -> constant 1000.0 (CrossHair would make it an unconstrained symbolic float)',
    'fn_globals': 'crosshair.fnutil.fn_globals tolerant of empty closure cells (enforcement crash on sqlalchemy closures)',
    'logging': 'absl.logging.* -> no-op (formatting of symbolic values)',
}

if 'format' in ENABLED:
  _orig_format = _core._PATCH_REGISTRATIONS.get(format, _bl._format)

  def _format(obj, format_spec=''):
    with NoTracing():
      if isinstance(obj, CrossHairValue) and not isinstance(obj, _bl.AnySymbolicStr):
        return '<sym>'
      if isinstance(obj, (tuple, list, dict, set, frozenset)):
        return '<container>'
      if not isinstance(obj, (str, int, float, bool, bytes, type(None), _bl.AnySymbolicStr)):
        return '<%s>' % type(obj).__name__      # arbitrary objects in error messages may hold symbolic values
    return _orig_format(obj, format_spec)

  _core._PATCH_REGISTRATIONS[format] = _format

if 'fn_globals' in ENABLED:
  _orig_fn_globals = _fnutil.fn_globals

  def _safe_fn_globals(fn):
    try:
      return _orig_fn_globals(fn)
    except ValueError:
      return getattr(fn, '__globals__', {})

  _fnutil.fn_globals = _safe_fn_globals

if 'hash' in ENABLED:

  def _hash_concrete(obj):
    with NoTracing():
      try:
        return _b.hash(obj)
      except TypeError:
        pass
      return _b.hash(_deep_realize(obj))

  _core._PATCH_REGISTRATIONS[hash] = _hash_concrete

if 'clock' in ENABLED:
  _core._PATCH_REGISTRATIONS[_time.time] = lambda: 1000.0

if 'logging' in ENABLED:
  try:
    from absl import logging as _alog

    def _noop(*a, **k):
      return None

    for _n in ('info', 'warning', 'warn', 'error', 'debug', 'exception', 'log', 'vlog', 'log_every_n', 'log_first_n'):
      if hasattr(_alog, _n):
        _core._PATCH_REGISTRATIONS[getattr(_alog, _n)] = _noop
  except Exception:
    pass

# --- float model -----------------------------------------------------------------------------------------------
# CrossHair 0.0.110 represents a symbolic float either as a mathematical real plus explicit nan/+inf/-inf cases
# (RealBasedSymbolicFloat) or as a z3 IEEE-754 double (PreciseIeeeSymbolicFloat), forks between the two at the root
# and caps every verdict that touched the real model at UNKNOWN.  We choose the model explicitly and state it:
#   VERIF_FLOAT_MODEL=real  -> only the real model; exhaustion counts as "confirmed under the real-number model"
#   VERIF_FLOAT_MODEL=ieee  -> only z3 FP doubles (exact float semantics; much slower)
FLOAT_MODEL = os.environ.get('VERIF_FLOAT_MODEL', 'real')
REAL_MODEL_USED = [0]
from crosshair import statespace as _ss  # noqa: E402

if FLOAT_MODEL == 'real':
  _bl._PYTYPE_TO_WRAPPER_TYPE[float] = ((_bl.RealBasedSymbolicFloat, 1.0),)

  def _no_cap(self):
    REAL_MODEL_USED[0] += 1

  _ss.StateSpace.cap_result_at_unknown = _no_cap
  STUBS['float_model'] = ('symbolic floats are mathematical reals plus explicit nan/+inf/-inf cases (CrossHair '
                          'RealBasedSymbolicFloat, its UNKNOWN cap removed): verdicts say nothing about rounding')
elif FLOAT_MODEL == 'ieee':
  _bl._PYTYPE_TO_WRAPPER_TYPE[float] = ((_bl.PreciseIeeeSymbolicFloat, 1.0),)
  STUBS['float_model'] = 'symbolic floats are z3 IEEE-754 doubles (PreciseIeeeSymbolicFloat)'
ENABLED = tuple(ENABLED) + ('float_model',)

# Harnesses whose float inputs are finite by precondition (nan/inf are rejected when the object under test is built)
# ask for finite-only symbolic floats: each float argument otherwise costs a 4-way case split (finite/nan/+inf/-inf).
if os.environ.get('VERIF_FINITE_FLOATS') == '1':
  import warnings as _warnings
  _warnings.filterwarnings('ignore', category=FutureWarning)
  os.environ['CROSSHAIR_ONLY_FINITE_FLOATS'] = '1'
  STUBS['finite_floats'] = 'symbolic float arguments range over finite reals only (non-finite inputs are outside this obligation)'
  ENABLED = tuple(ENABLED) + ('finite_floats',)

# int(<symbolic real>) : CrossHair 0.0.110 realises the float (value enumeration); use its own symbolic truncation.
if FLOAT_MODEL == 'real':
  _orig_int = _core._PATCH_REGISTRATIONS.get(int, _bl._int)

  _int_depth = [0]

  def _int_sym(val=0, *a, **kw):
    with NoTracing():
      if _int_depth[0]:            # int() called from inside CrossHair's own _int on an already-realised value
        return _b.int(val, *a, **kw)
      is_real = isinstance(val, _bl.RealBasedSymbolicFloat) and not a and not kw
    if is_real:
      return val.__int__()
    _int_depth[0] += 1
    try:
      return _orig_int(val, *a, **kw)
    finally:
      _int_depth[0] -= 1

  _core._PATCH_REGISTRATIONS[int] = _int_sym
  STUBS['int_of_real'] = 'int(symbolic real) = symbolic truncation toward zero (z3 ToInt) instead of realisation'
  ENABLED = tuple(ENABLED) + ('int_of_real',)


# numpy scalar predicates called on Python scalars by attrs validators (np.isfinite(value) in trial.Metric/Measurement):
# numpy cannot take a symbolic number; on symbolic arguments use the documented scalar meaning.
try:
  import numpy as _np

  def _sym(x):
    with NoTracing():
      return isinstance(x, CrossHairValue)

  def _np_isfinite(x, *a, **kw):
    if _sym(x):
      return x == x and x != float('inf') and x != float('-inf')
    with NoTracing():
      return _np.isfinite(x, *a, **kw)

  def _np_isnan(x, *a, **kw):
    if _sym(x):
      return x != x
    with NoTracing():
      return _np.isnan(x, *a, **kw)

  _core._PATCH_REGISTRATIONS[_np.isfinite] = _np_isfinite
  _core._PATCH_REGISTRATIONS[_np.isnan] = _np_isnan
  STUBS['numpy_scalars'] = 'np.isfinite / np.isnan on a symbolic Python scalar = their documented scalar meaning'
  ENABLED = tuple(ENABLED) + ('numpy_scalars',)
except Exception:  # noqa
  pass
