"""Support used by harness functions (runs both under CrossHair tracing and natively on replay).

* conc / choose      -- turn a small closed symbolic domain into Python-level branches before it reaches C code
* reach(tag)         -- reachability witnesses (counted outside tracing, reported in the evidence)
* finish(ok, args)   -- end-of-path bookkeeping: records a *peeked* solver model of the path (no constraint added)
                        together with the concrete verdict, so the driver can re-run the path natively
* is_symbolic(x)
"""
import json
import os

try:
  from crosshair import NoTracing
  from crosshair.core import CrossHairValue
  from crosshair.statespace import context_statespace, optional_context_statespace
  from crosshair.tracers import is_tracing
  _HAVE_CH = True
except Exception:  # replay under plain /venv python has no crosshair
  _HAVE_CH = False

  class NoTracing:  # type: ignore
    def __enter__(self):
      return self

    def __exit__(self, *a):
      return False

  def is_tracing():
    return False


REACH = {}
PATHS = []          # first MAX_PATH_SAMPLES finished paths: {'args': [...], 'ok': bool, 'obs': ...}
DISTINCT = set()    # distinct peeked models over ALL finished paths
MAX_PATH_SAMPLES = int(os.environ.get('VERIF_MAX_PATH_SAMPLES', '60'))
N_FINISHED = [0]
_KNOWN = None


class HarnessBug(Exception):
  """The harness itself is wrong (not a verdict about /repo)."""


def conc(x, lo, hi):
  """Returns a concrete int equal to x, by branching over lo..hi (x must be assumed inside)."""
  for v in range(lo, hi + 1):
    if x == v:
      return v
  raise HarnessBug('conc: value outside [%d,%d]' % (lo, hi))


def choose(x, options):
  for v in options:
    if x == v:
      return v
  raise HarnessBug('choose: value outside options')


def cbool(b):
  if b:
    return True
  return False


def reach(tag):
  with NoTracing():
    REACH[tag] = REACH.get(tag, 0) + 1


def is_symbolic(x):
  if not _HAVE_CH:
    return False
  with NoTracing():
    return isinstance(x, CrossHairValue)


def _peek_one(model, v):
  import z3
  from crosshair.libimpl import builtinslib as bl
  if isinstance(v, bl.SymbolicBool):
    return bool(z3.is_true(model.eval(v.var, model_completion=True)))
  if isinstance(v, bl.SymbolicInt):
    return model.eval(v.var, model_completion=True).as_long()
  if isinstance(v, bl.RealBasedSymbolicFloat):
    r = model.eval(v.var, model_completion=True)
    try:
      return float(r.numerator_as_long()) / float(r.denominator_as_long())
    except Exception:
      return repr(r)
  if isinstance(v, bl.LazyIntSymbolicStr) and isinstance(v._codepoints, bl.SymbolicBoundedIntTuple):
    cps = v._codepoints
    n = model.eval(cps._len.var, model_completion=True).as_long()
    vs = (list(cps._created_vars) + list(cps._new_var_queue))[:n]
    chars = [chr(model.eval(x.var, model_completion=True).as_long()) for x in vs]
    chars += ['a'] * (n - len(chars))          # characters the path never looked at: any value will do
    return ''.join(chars)
  if isinstance(v, CrossHairValue):
    return '<sym:%s>' % type(v).__name__
  if isinstance(v, (list, tuple)):
    return [_peek_one(model, e) for e in v]
  if isinstance(v, float):
    return v if v == v and abs(v) != float('inf') else {'__float__': repr(v)}
  if isinstance(v, (int, bool, str)) or v is None:
    return v
  return repr(v)


def peek(values):
  """Concrete model of `values` under the current path condition, WITHOUT adding constraints. None if natively run."""
  if not _HAVE_CH:
    return None
  with NoTracing():
    space = optional_context_statespace()
    if space is None:
      return None
    import z3
    try:
      if str(space.solver.check()) != 'sat':
        return None
      model = space.solver.model()
      return [_peek_one(model, v) for v in values]
    except Exception as e:  # peeking is best effort
      return ['<peek failed: %s>' % type(e).__name__]


def finish(ok, args=(), obs=None):
  """Call as `return finish(ok, args=(a, b, ...), obs=concrete_observation)` at the end of a harness path.

  Branches on `ok` (exactly what evaluating `post: _` would do next) so the recorded verdict is concrete.
  """
  okc = True if ok else False
  with NoTracing():
    N_FINISHED[0] += 1
    model = peek(list(args))
    try:
      DISTINCT.add(json.dumps(model, default=repr))
    except Exception:
      pass
    if len(PATHS) < MAX_PATH_SAMPLES:
      PATHS.append({'args': model, 'ok': okc, 'obs': obs})
  return okc


def known(key):
  """True iff `key` is listed as an OPEN finding in /verif/known_findings.jsonl (the harness then skips that region)."""
  global _KNOWN
  with NoTracing():
    if os.environ.get('VERIF_IGNORE_KNOWN'):
      return False
    if _KNOWN is None:
      _KNOWN = set()
      path = os.path.join(os.path.dirname(os.path.dirname(os.path.abspath(__file__))), 'known_findings.jsonl')
      if os.path.exists(path):
        for line in open(path):
          line = line.strip()
          if line.startswith('{'):
            rec = json.loads(line)
            if rec.get('status', 'open') == 'open':
              _KNOWN.add(rec['key'])
    return key in _KNOWN


def dump_state(path):
  with open(path, 'w') as f:
    json.dump({'reach': REACH, 'paths': PATHS, 'n_finished': N_FINISHED[0], 'distinct': len(DISTINCT)}, f, default=repr)
