"""Differential self-test of env/symproto against the real upb runtime: the same scenarios (vizier's own converters and a
servicer flow) run on both back ends and must produce the same canonical text.  usage: symproto_selftest.py [scenario-runner]"""
import json
import os
import subprocess
import sys

HERE = os.path.dirname(os.path.abspath(__file__))


def scenarios():
  sys.path.insert(0, os.path.dirname(HERE))
  import env.bootstrap as bootstrap
  from vizier.service import pyvizier as vz
  from vizier._src.pyvizier.oss import proto_converters as pc
  from vizier._src.pyvizier.oss import metadata_util
  from vizier._src.service import study_pb2, vizier_service_pb2, key_value_pb2, vizier_service
  from google.protobuf import text_format
  bootstrap.post_import()
  sym = os.environ.get('PB_BACKEND') == 'sym'
  if sym:
    from env import symproto

  def txt(m):
    if sym and isinstance(m, symproto.SymMessage):
      m = symproto.to_upb(m)
    return text_format.MessageToString(m, as_one_line=True)

  out = {}
  sc = vz.StudyConfig(algorithm='RANDOM_SEARCH')
  root = sc.search_space.root
  root.add_float_param('f', -1.5, 2.5, default_value=0.5, scale_type=vz.ScaleType.LOG)
  root.add_int_param('i', -3, 4, default_value=2)
  root.add_discrete_param('d', [3.0, 1.0, 2.5], default_value=1.0)
  root.add_categorical_param('c', ['b', 'a'], default_value='a')
  root.add_bool_param('flag')
  m = root.add_categorical_param('model', ['dnn', 'linear'])
  m.select_values(['dnn']).add_int_param('layers', 1, 3)
  sc.metric_information.append(vz.MetricInformation('m', goal=vz.ObjectiveMetricGoal.MAXIMIZE))
  sc.metric_information.append(vz.MetricInformation('s', goal=vz.ObjectiveMetricGoal.MINIMIZE, safety_threshold=0.2,
                                                    desired_min_safe_trials_fraction=0.5))
  sc.metadata['k'] = 'v'
  sc.metadata.ns('a').ns('b:c')['k2'] = 'v2'
  p = sc.to_proto()
  out['studyconfig'] = txt(p)
  sc2 = vz.StudyConfig.from_proto(p)
  out['studyconfig_rt'] = txt(sc2.to_proto())
  out['studyconfig_eq'] = str(sc2.search_space == sc.search_space and list(sc2.metric_information) == list(sc.metric_information))
  t = vz.Trial(id=3, parameters={'f': 0.25, 'i': 2, 'c': 'a', 'flag': 'True'})
  t.measurements.append(vz.Measurement({'m': 1.0}, elapsed_secs=2.5, steps=3))
  t.metadata.ns('x')['y'] = 'z'
  t.creation_time = None
  tp = pc.TrialConverter.to_proto(t)
  out['trial'] = txt(tp)
  t.complete(vz.Measurement({'m': 2.0, 's': 0.1}))
  t.completion_time = t.creation_time = None
  tp = pc.TrialConverter.to_proto(t)
  out['trial_done'] = txt(tp)
  t2 = pc.TrialConverter.from_proto(tp)
  out['trial_rt'] = txt(pc.TrialConverter.to_proto(t2))
  # metadata with a packed proto
  md = vz.Metadata()
  md['s'] = 'str'
  md.ns('p')['proto'] = study_pb2.Trial(id='7', state=2)
  kvs = metadata_util.make_key_value_list(md)
  out['kvs'] = ' | '.join(txt(k) for k in kvs)
  back = metadata_util.from_key_value_list(kvs)
  out['kv_unpack'] = txt(back.ns('p').get('proto', cls=study_pb2.Trial))
  spec = study_pb2.StudySpec()
  metadata_util.merge_study_metadata(spec, kvs)
  metadata_util.merge_study_metadata(spec, [key_value_pb2.KeyValue(key='s', ns='', value='new')])
  out['merge'] = txt(spec)
  # servicer flow on the RAM datastore
  sv = vizier_service.VizierServicer(database_url=None)
  st = sv.CreateStudy(vizier_service_pb2.CreateStudyRequest(parent='owners/o', study=study_pb2.Study(display_name='s', study_spec=p)))
  out['create_study'] = st.name
  tr = study_pb2.Trial()
  tr.parameters.add(parameter_id='f').value.number_value = 1.0
  c = sv.CreateTrial(vizier_service_pb2.CreateTrialRequest(parent=st.name, trial=tr))
  c.ClearField('start_time')
  out['create_trial'] = txt(c)
  try:
    sv.CompleteTrial(vizier_service_pb2.CompleteTrialRequest(name=c.name))
    out['complete_requested'] = 'no error'
  except Exception as e:  # noqa
    out['complete_requested'] = type(e).__name__
  r = sv.UpdateMetadata(vizier_service_pb2.UpdateMetadataRequest(name=st.name, delta=[
      vizier_service_pb2.UnitMetadataUpdate(metadatum=key_value_pb2.KeyValue(key='a', value='b'))]))
  out['update_md'] = txt(r)
  got = sv.GetStudy(vizier_service_pb2.GetStudyRequest(name=st.name))
  out['get_study_md'] = ' | '.join(txt(k) for k in got.study_spec.metadata)
  print(json.dumps(out, sort_keys=True))


def main():
  if len(sys.argv) > 1 and sys.argv[1] == 'run':
    scenarios()
    return 0
  res = {}
  for backend in ('upb', 'sym'):
    env = dict(os.environ, PB_BACKEND=backend)
    p = subprocess.run([sys.executable, os.path.abspath(__file__), 'run'], env=env, capture_output=True, text=True)
    if p.returncode != 0:
      print('symproto self-test: backend %s failed:\n%s' % (backend, p.stderr[-3000:]))
      return 1
    res[backend] = json.loads(p.stdout.strip().splitlines()[-1])
  bad = [k for k in res['upb'] if res['upb'][k] != res['sym'].get(k)]
  for k in bad:
    print('MISMATCH %s\n  upb: %s\n  sym: %s' % (k, res['upb'][k][:600], res['sym'].get(k, '')[:600]))
  print('symproto self-test: %d scenarios, %d mismatches' % (len(res['upb']), len(bad)))
  return 1 if bad else 0


if __name__ == '__main__':
  sys.exit(main())
