"""Probe: minimal relational stand-in for the sqlalchemy API used by sql_datastore.py."""
import copy

String = 'String'
INTEGER = 'INTEGER'
INT = 'INT'


class _Exc:
  class DatabaseError(Exception):
    pass

  class IntegrityError(DatabaseError):
    pass


exc = _Exc


class Column:
  def __init__(self, name, type_=None, primary_key=False):
    self.name, self.primary_key, self.table = name, primary_key, None

  def __eq__(self, value):
    return ('eq', self, value)

  __hash__ = None


class _Cols:
  pass


class MetaData:
  def __init__(self):
    self.tables = []

  def create_all(self, engine):
    for t in self.tables:
      engine.rows.setdefault(t.name, [])


class Table:
  def __init__(self, name, metadata, *cols):
    self.name, self.cols, self.c = name, cols, _Cols()
    for c in cols:
      c.table = self
      setattr(self.c, c.name, c)
    metadata.tables.append(self)

  def insert(self):
    return Stmt('insert', self)

  def delete(self):
    return Stmt('delete', self)


class Stmt:
  def __init__(self, kind, table=None, what=None):
    self.kind, self.table, self.what = kind, table, what
    self.conds, self.vals = [], {}

  def where(self, cond):
    s = copy.copy(self); s.conds = self.conds + [cond]; return s

  def values(self, **kw):
    s = copy.copy(self); s.vals = dict(kw); return s

  def select(self):  # exists(q).select()
    return self


def select(what):
  if isinstance(what, Table):
    return Stmt('select', what)
  return Stmt('selectmax', what[1].table, what[1])  # ('max', col)


def update(table):
  return Stmt('update', table)


def exists(q):
  s = copy.copy(q); s.kind = 'exists'; return s


class _Func:
  def max(self, col, type_=None):
    return ('max', col)


func = _Func()


class Row:
  def __init__(self, d):
    self.__dict__.update(d)
    self._d = d

  def __getitem__(self, i):
    return list(self._d.values())[i]


class Result:
  def __init__(self, rows):
    self.rows = rows

  def fetchone(self):
    return self.rows[0] if self.rows else None

  def fetchall(self):
    return list(self.rows)

  def __iter__(self):
    return iter(self.rows)


class Engine:
  def __init__(self):
    self.rows = {}      # committed
    self.conn = Connection(self)

  def connect(self):
    return self.conn


class Connection:
  def __init__(self, engine):
    self.engine = engine
    self.work = None
    self.trace = []
    self.fail_write_at = None  # index of write that raises DatabaseError
    self.n_writes = 0
    self.dirty = False

  def _tables(self):
    if self.work is None:
      self.work = copy.deepcopy(self.engine.rows)
    return self.work

  def _match(self, row, conds):
    for _, col, val in conds:
      if not (row[col.name] == val):
        return False
    return True

  def execute(self, s):
    rows = self._tables()[s.table.name]
    if s.kind in ('select', 'exists', 'selectmax'):
      self.trace.append('r')
      sel = [r for r in rows if self._match(r, s.conds)]
      if s.kind == 'exists':
        return Result([Row({'e': len(sel) > 0})])
      if s.kind == 'selectmax':
        vals = [r[s.what.name] for r in sel]
        return Result([Row({'m': max(vals) if vals else None})])
      return Result([Row(r) for r in sel])
    self.trace.append('w')
    self.dirty = True
    k = self.n_writes
    self.n_writes += 1
    if self.fail_write_at is not None and k == self.fail_write_at:
      raise exc.DatabaseError('injected')
    if s.kind == 'insert':
      pk = [c.name for c in s.table.cols if c.primary_key]
      for r in rows:
        if all(r[p] == s.vals[p] for p in pk):
          raise exc.IntegrityError('dup')
      rows.append(dict(s.vals))
    elif s.kind == 'update':
      for r in rows:
        if self._match(r, s.conds):
          r.update(s.vals)
    elif s.kind == 'delete':
      self._tables()[s.table.name] = [r for r in rows if not self._match(r, s.conds)]
    return Result([])

  def commit(self):
    self.trace.append('C')
    self.dirty = False
    if self.work is not None:
      self.engine.rows = self.work
      self.work = None

  def rollback(self):
    self.trace.append('R')
    self.dirty = False
    self.work = None
