"""Minimal stand-in for equinox (the installed 0.11.7 cannot import under jax 0.11.2)."""
import dataclasses, functools
import jax

__version__ = 'stub'
_MISSING = dataclasses.MISSING


def field(*, converter=None, static=False, default=_MISSING, default_factory=_MISSING, **kw):
  md = dict(kw.pop('metadata', {}) or {})
  md['static'] = static
  if converter is not None:
    md['converter'] = converter
  args = dict(metadata=md, **kw)
  if default is not _MISSING:
    args['default'] = default
  if default_factory is not _MISSING:
    args['default_factory'] = default_factory
  return dataclasses.field(**args)


import abc
class _ModuleMeta(abc.ABCMeta):
  def __new__(mcs, name, bases, ns, **kw):
    cls = super().__new__(mcs, name, bases, ns, **kw)
    has_init = '__init__' in ns
    cls = dataclasses.dataclass(frozen=False, eq=False, repr=True, init=not has_init)(cls)
    fields = dataclasses.fields(cls)
    conv = [(f.name, f.metadata['converter']) for f in fields if 'converter' in f.metadata]
    if conv and not has_init:
      orig_init = cls.__init__
      @functools.wraps(orig_init)
      def __init__(self, *a, **k):
        orig_init(self, *a, **k)
        for n, c in conv:
          object.__setattr__(self, n, c(getattr(self, n)))
        post = getattr(self, '__check_init__', None)
      cls.__init__ = __init__
    dyn = [f.name for f in fields if not f.metadata.get('static', False)]
    sta = [f.name for f in fields if f.metadata.get('static', False)]
    def flatten(obj):
      return tuple(getattr(obj, n) for n in dyn), tuple(getattr(obj, n) for n in sta)
    def unflatten(aux, children):
      obj = object.__new__(cls)
      for n, v in zip(dyn, children):
        object.__setattr__(obj, n, v)
      for n, v in zip(sta, aux):
        object.__setattr__(obj, n, v)
      return obj
    jax.tree_util.register_pytree_node(cls, flatten, unflatten)
    return cls


class Module(metaclass=_ModuleMeta):
  pass


def filter_jit(fn=None, **kw):
  if fn is None:
    return lambda f: f
  return fn


def filter_vmap(fn=None, **kw):
  raise NotImplementedError('equinox stub: filter_vmap')


def tree_pformat(tree, **kw):
  return repr(tree)
