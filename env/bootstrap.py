"""Import-time environment for every check: sys.path (equinox stub, /repo, /verif) and the pb2 finder.

Nothing here touches /repo. VERIF_REPO overrides the repository location (used for scratch worktrees).
"""
import os
import sys

VERIF = os.path.dirname(os.path.dirname(os.path.abspath(__file__)))
REPO = os.environ.get('VERIF_REPO', '/repo')
for p in (VERIF, REPO, os.path.join(VERIF, 'env', 'stubs')):
  if p in sys.path:
    sys.path.remove(p)
  sys.path.insert(0, p)
os.environ.setdefault('JAX_PLATFORMS', 'cpu')
os.environ.setdefault('TF_CPP_MIN_LOG_LEVEL', '3')
from env import pbgen  # noqa: E402  (installs the finder)


def post_import():
  """Call after importing vizier modules: in the sym back end, rebinds their well-known-type module globals."""
  if os.environ.get('PB_BACKEND') != 'sym':
    return
  from env import symproto
  mods = [m for name, m in list(sys.modules.items())
          if name.startswith('vizier.') and m is not None and any(
              hasattr(m, a) for a in ('any_pb2', 'timestamp_pb2', 'duration_pb2', 'empty_pb2', 'operations_pb2', 'status_pb2'))]
  symproto.install_wkt(*mods)
