"""Import-time environment for every check: sys.path (equinox stub, /repo, /verif) and the pb2 finder.

Nothing here touches /repo. VERIF_REPO overrides the repository location (used for scratch worktrees).
"""
import os
import sys

VERIF = os.path.dirname(os.path.dirname(os.path.abspath(__file__)))
REPO = os.environ.get('VERIF_REPO', '/repo')
for p in (VERIF, REPO, os.path.join(VERIF, 'env', 'stubs')):
  if p in sys.path:
    sys.path.remove(p)
  sys.path.insert(0, p)
os.environ.setdefault('JAX_PLATFORMS', 'cpu')
os.environ.setdefault('TF_CPP_MIN_LOG_LEVEL', '3')
from env import pbgen  # noqa: E402  (installs the finder)
