"""symproto: pure-Python model of the protobuf message API that google/vizier uses (the `sym` back end of env/pbgen).

Why: upb messages are C objects; a symbolic value assigned to a field is realised on the spot, so conditions such as
`if proto.default_value.value:` would only be tried on solver-picked samples.  These classes are generated from the same
descriptors pbgen parses out of /repo's .proto files and keep field values as ordinary Python objects (symbolic or not).

Modelled: kwargs construction (copying message arguments), proto3 defaults, auto-vivifying sub-messages that mark presence
and select the oneof on first mutation, `optional` presence, repeated containers, ==, deepcopy, CopyFrom, MergeFrom,
ClearField, HasField, WhichOneof, SerializeToString/FromString (opaque snapshot), enum wrappers, and the well-known types
Any, Timestamp, Duration.  Anything else raises SymprotoUnsupported (a harness error, never a verdict).
It is a MODEL: every explored path is re-executed natively on the real upb runtime by the driver (engine/run_check.py).
"""
import copy
import datetime

from google.protobuf import descriptor as _d
from google.protobuf import message_factory as _mf
from google.protobuf.message import Message as _PBMessage

FD = _d.FieldDescriptor

try:  # under CrossHair the builtins getattr()/setattr() call __getattr__/__setattr__ with tracing PAUSED; resume it
  from crosshair.statespace import optional_context_statespace as _space
  from crosshair.tracers import ResumedTracing as _Resumed
  from crosshair.tracers import is_tracing as _is_tracing
  _CH = True
except Exception:  # noqa  (native replay without crosshair)
  _CH = False


class _Traced:
  __slots__ = ('c',)

  def __enter__(self):
    self.c = None
    if _CH and not _is_tracing() and _space() is not None:
      self.c = _Resumed()
      self.c.__enter__()
    return self

  def __exit__(self, *a):
    if self.c is not None:
      self.c.__exit__(*a)
    return False

_INT_TYPES = (FD.CPPTYPE_INT32, FD.CPPTYPE_INT64, FD.CPPTYPE_UINT32, FD.CPPTYPE_UINT64)
_SCALAR_DEFAULT = {
    FD.CPPTYPE_INT32: 0, FD.CPPTYPE_INT64: 0, FD.CPPTYPE_UINT32: 0, FD.CPPTYPE_UINT64: 0,
    FD.CPPTYPE_DOUBLE: 0.0, FD.CPPTYPE_FLOAT: 0.0, FD.CPPTYPE_BOOL: False, FD.CPPTYPE_ENUM: 0,
}
_CLASSES = {}


class SymprotoUnsupported(Exception):
  pass


def _default(f):
  if f.cpp_type == FD.CPPTYPE_STRING:
    return b'' if f.type == FD.TYPE_BYTES else ''
  return _SCALAR_DEFAULT[f.cpp_type]


def _has_presence(f):
  return f.cpp_type == FD.CPPTYPE_MESSAGE or f.containing_oneof is not None


class Snapshot:
  """Opaque, immutable stand-in for serialized bytes (vizier never inspects them)."""

  def __init__(self, msg):
    self.msg = copy.deepcopy(msg)

  def __eq__(self, other):
    if isinstance(other, Snapshot):
      return self.msg == other.msg
    if isinstance(other, (bytes, bytearray)):
      return len(other) == 0 and not self.msg._canon()
    return NotImplemented

  def __ne__(self, other):
    r = self.__eq__(other)
    return r if r is NotImplemented else not r

  def __hash__(self):
    return 0

  def __len__(self):
    return 1 if self.msg._canon() else 0

  def __bool__(self):
    return bool(self.msg._canon())

  def __repr__(self):
    return '<serialized %s>' % type(self.msg).__name__


def _coerce(f, value):
  """Scalar coercions protobuf performs on assignment (int -> float for double fields); type errors as upb raises them."""
  ct = f.cpp_type
  if ct in (FD.CPPTYPE_DOUBLE, FD.CPPTYPE_FLOAT):
    if isinstance(value, bool):
      return 1.0 if value else 0.0
    if isinstance(value, int):
      return float(value)
    if not isinstance(value, float):
      raise TypeError('%r has type %s, but expected one of: int, float' % (value, type(value).__name__))
    return value
  if ct in _INT_TYPES or ct == FD.CPPTYPE_ENUM:
    if isinstance(value, bool):
      return 1 if value else 0
    if not isinstance(value, int):
      raise TypeError('%s has type %s, but expected one of: int' % ('<value>', type(value).__name__))
    return value
  if ct == FD.CPPTYPE_BOOL:
    if not isinstance(value, (bool, int)):
      raise TypeError('expected bool')
    return True if value else False
  if ct == FD.CPPTYPE_STRING:
    if f.type == FD.TYPE_BYTES:
      if not isinstance(value, (bytes, bytearray, Snapshot)):
        raise TypeError('expected bytes')
      return value
    if not isinstance(value, str):
      raise TypeError('bad argument type for built-in operation')
    return value
  raise SymprotoUnsupported('scalar type %s' % ct)


class Repeated(list):
  """Repeated field container (scalar or composite)."""

  def __init__(self, owner, field, cls):
    super().__init__()
    self._owner, self._field, self._cls = owner, field, cls

  def _touch(self):
    if self._owner is not None:
      self._owner._mark()

  def _conv(self, x):
    if self._cls is not None:
      if not isinstance(x, _PBMessage):
        raise TypeError('expected a message for repeated field %s' % self._field.name)
      c = self._cls()
      c.CopyFrom(x)
      return c
    return _coerce(self._field, x)

  def add(self, **kw):
    if self._cls is None:
      raise AttributeError('add() on a repeated scalar field')
    m = self._cls(**kw)
    list.append(self, m)
    self._touch()
    return m

  def append(self, x):
    list.append(self, self._conv(x))
    self._touch()

  def extend(self, xs):
    list.extend(self, [self._conv(x) for x in xs])
    self._touch()

  def insert(self, i, x):
    list.insert(self, i, self._conv(x))
    self._touch()

  def MergeFrom(self, other):
    self.extend(other)

  def __setitem__(self, key, value):
    if isinstance(key, slice):
      list.__setitem__(self, key, [self._conv(x) for x in value])
    else:
      if self._cls is not None:
        raise TypeError('item assignment on a repeated composite field')
      list.__setitem__(self, key, self._conv(value))
    self._touch()

  def __deepcopy__(self, memo):
    r = Repeated(None, self._field, self._cls)
    list.extend(r, [copy.deepcopy(x, memo) for x in self])
    return r

  def __eq__(self, other):
    if isinstance(other, Repeated) or isinstance(other, list):
      return list.__eq__(self, other)
    return NotImplemented

  __hash__ = None


class SymMessage(_PBMessage):
  _desc = None

  def __init__(self, **kw):
    object.__setattr__(self, '_values', {})
    object.__setattr__(self, '_parent', None)
    for k, v in kw.items():
      f = self._desc.fields_by_name.get(k)
      if f is None:
        raise ValueError('Protocol message %s has no "%s" field.' % (self._desc.name, k))
      if v is None:
        continue
      if f.is_repeated:
        getattr(self, k).extend(v)
      elif f.cpp_type == FD.CPPTYPE_MESSAGE:
        getattr(self, k).CopyFrom(v)
      else:
        self._set_present(k, _coerce(f, v))

  # -- presence bookkeeping -------------------------------------------------------------------------------------
  def _mark(self):
    p = self._parent
    if p is not None:
      parent, fname = p
      parent._set_present(fname, self)

  def _set_present(self, fname, value):
    f = self._desc.fields_by_name[fname]
    if f.containing_oneof is not None:
      for other in f.containing_oneof.fields:
        if other.name != fname:
          self._values.pop(other.name, None)
    self._values[fname] = value
    self._mark()

  def __getattr__(self, name):
    if name.startswith('__'):
      raise AttributeError(name)
    f = self._desc.fields_by_name.get(name)
    if f is None:
      raise AttributeError('%s has no field %s' % (self._desc.name, name))
    vals = self._values
    if name in vals:
      return vals[name]
    if f.is_repeated:
      cls = _class_for(f.message_type) if f.cpp_type == FD.CPPTYPE_MESSAGE else None
      r = Repeated(self, f, cls)
      vals[name] = r            # an empty repeated field is indistinguishable from an absent one
      return r
    if f.cpp_type == FD.CPPTYPE_MESSAGE:
      child = _class_for(f.message_type)()
      object.__setattr__(child, '_parent', (self, name))
      return child              # not stored until mutated
    return _default(f)

  def __setattr__(self, name, value):
    f = self._desc.fields_by_name.get(name)
    if f is None:
      raise AttributeError('Assignment not allowed (no field "%s" in protocol message object).' % name)
    if f.is_repeated or f.cpp_type == FD.CPPTYPE_MESSAGE:
      raise AttributeError('Assignment not allowed to composite field "%s" in protocol message object.' % name)
    with _Traced():
      self._set_present(name, _coerce(f, value))

  def HasField(self, name):
    if name in self._desc.oneofs_by_name:
      return self.WhichOneof(name) is not None
    f = self._desc.fields_by_name.get(name)
    if f is None:
      raise ValueError('Protocol message %s has no field %s.' % (self._desc.name, name))
    if f.is_repeated:
      raise ValueError('Protocol message has no singular "%s" field.' % name)
    if not _has_presence(f):
      raise ValueError('Can\'t test non-optional, non-submessage field "%s" for presence in proto3.' % name)
    return name in self._values

  def WhichOneof(self, oneof):
    o = self._desc.oneofs_by_name.get(oneof)
    if o is None:
      raise ValueError('Protocol message has no oneof "%s" field.' % oneof)
    for f in o.fields:
      if f.name in self._values:
        return f.name
    return None

  def ClearField(self, name):
    if name in self._desc.oneofs_by_name:
      w = self.WhichOneof(name)
      if w:
        self._values.pop(w, None)
      return
    if name not in self._desc.fields_by_name:
      raise ValueError('Protocol message has no "%s" field.' % name)
    old = self._values.pop(name, None)
    if isinstance(old, Repeated):
      object.__setattr__(old, '_owner', None)
    elif isinstance(old, SymMessage):
      object.__setattr__(old, '_parent', None)

  def Clear(self):
    self._values.clear()
    self._mark()

  def CopyFrom(self, other):
    if other is self:
      return
    if not isinstance(other, SymMessage):
      other = from_upb(other)
    if other._desc.full_name != self._desc.full_name:
      raise TypeError('Parameter to CopyFrom() must be instance of same class: expected %s got %s.' % (
          self._desc.full_name, other._desc.full_name))
    self._values.clear()
    for k, v in other._values.items():
      self._values[k] = self._adopt(k, copy.deepcopy(v))
    self._mark()

  def _adopt(self, k, v2):
    if isinstance(v2, SymMessage):
      object.__setattr__(v2, '_parent', (self, k))
    elif isinstance(v2, Repeated):
      object.__setattr__(v2, '_owner', self)
    return v2

  def MergeFrom(self, other):
    if not isinstance(other, SymMessage):
      other = from_upb(other)
    for f in self._desc.fields:
      if f.name not in other._values:
        continue
      v = other._values[f.name]
      if f.is_repeated:
        getattr(self, f.name).extend(v)
      elif f.cpp_type == FD.CPPTYPE_MESSAGE:
        getattr(self, f.name).MergeFrom(v)
        self._set_present(f.name, getattr(self, f.name)) if f.name not in self._values else None
      else:
        if f.containing_oneof is not None or not _is_default(f, v):
          self._set_present(f.name, v)
    self._mark()

  def _canon(self):
    """Canonical content: what protobuf equality compares (set fields; default-valued plain scalars count as unset)."""
    out = {}
    for f in self._desc.fields:
      v = self._values.get(f.name)
      if v is None:
        continue
      if f.is_repeated:
        if len(v):
          out[f.name] = [x._canon() if isinstance(x, SymMessage) else x for x in v]
      elif isinstance(v, SymMessage):
        out[f.name] = v._canon()
      elif f.containing_oneof is not None or not _is_default(f, v):
        out[f.name] = v
    return out

  def __eq__(self, other):
    if not isinstance(other, SymMessage):
      if isinstance(other, _PBMessage):
        return self == from_upb(other)
      return NotImplemented
    return other._desc.full_name == self._desc.full_name and self._canon() == other._canon()

  def __ne__(self, other):
    r = self.__eq__(other)
    return r if r is NotImplemented else not r

  __hash__ = None

  def __deepcopy__(self, memo):
    new = type(self)()
    for k, v in self._values.items():
      new._values[k] = new._adopt(k, copy.deepcopy(v, memo))
    return new

  def SerializeToString(self, **kw):
    return Snapshot(self)

  SerializePartialToString = SerializeToString

  def ByteSize(self):
    return 1 if self._canon() else 0

  @classmethod
  def FromString(cls, s):
    if isinstance(s, Snapshot):
      if s.msg._desc.full_name != cls._desc.full_name:
        raise SymprotoUnsupported('FromString: %s parsed as %s' % (s.msg._desc.full_name, cls._desc.full_name))
      return copy.deepcopy(s.msg)
    if isinstance(s, (bytes, bytearray)):
      if len(s) == 0:
        return cls()
      real = _mf.GetMessageClass(cls._desc).FromString(bytes(s))
      return from_upb(real)
    raise TypeError('FromString: %r' % type(s))

  def ParseFromString(self, s):
    self.CopyFrom(type(self).FromString(s))

  def ListFields(self):
    out = []
    for f in self._desc.fields:
      if f.name in self._values:
        v = self._values[f.name]
        if f.is_repeated and not len(v):
          continue
        if not f.is_repeated and not _has_presence(f) and _is_default(f, v):
          continue
        out.append((f, v))
    return out

  def IsInitialized(self):
    return True

  def __repr__(self):
    return '<symproto %s>' % self._desc.name

  __str__ = __repr__

  def __format__(self, spec):
    return '<symproto %s>' % self._desc.name


def _is_default(f, v):
  d = _default(f)
  if f.cpp_type == FD.CPPTYPE_STRING:
    if isinstance(v, Snapshot):
      return not bool(v)
    return len(v) == 0
  return v == d


class _EnumWrapper:

  def __init__(self, ed):
    self._ed = ed
    self.DESCRIPTOR = ed
    for v in ed.values:
      setattr(self, v.name, v.number)

  def Name(self, number):
    for v in self._ed.values:
      if number == v.number:
        return v.name
    raise ValueError('Enum %s has no name defined for value' % self._ed.name)

  def Value(self, name):
    if name not in self._ed.values_by_name:
      raise ValueError('Enum %s has no value defined for name %r' % (self._ed.name, name))
    return self._ed.values_by_name[name].number

  def keys(self):
    return [v.name for v in self._ed.values]

  def values(self):
    return [v.number for v in self._ed.values]

  def items(self):
    return [(v.name, v.number) for v in self._ed.values]


# ---- well-known types -----------------------------------------------------------------------------------------
class _AnyMixin:
  """google.protobuf.Any: `value` holds a Snapshot of the packed message (bytes are never inspected by vizier)."""

  def Pack(self, msg, type_url_prefix='type.googleapis.com/', deterministic=None):
    if not isinstance(msg, SymMessage):
      msg = from_upb(msg)
    self.type_url = type_url_prefix + msg._desc.full_name
    self.value = Snapshot(msg)

  def Unpack(self, msg):
    if not self.Is(msg.DESCRIPTOR):
      return False
    v = self._values.get('value')
    if isinstance(v, Snapshot):
      src = v.msg
    elif v:
      src = from_upb(_mf.GetMessageClass(msg.DESCRIPTOR).FromString(bytes(v)))
    else:
      src = _class_for(msg.DESCRIPTOR)()
    if isinstance(msg, SymMessage):
      msg.CopyFrom(src)
    else:
      msg.CopyFrom(to_upb(src))
    return True

  def TypeName(self):
    return self.type_url.split('/')[-1]

  def Is(self, descriptor):
    return '/' in self.type_url and self.TypeName() == descriptor.full_name


_EPOCH = datetime.datetime(1970, 1, 1)


class _TimestampMixin:

  def GetCurrentTime(self):
    import time
    self.FromSeconds(int(time.time()))

  def FromSeconds(self, seconds):
    self.seconds = seconds
    self.nanos = 0

  def ToSeconds(self):
    return self.seconds

  def FromDatetime(self, dt):
    delta = dt.replace(tzinfo=None) - _EPOCH if dt.tzinfo is None else dt.astimezone(datetime.timezone.utc).replace(tzinfo=None) - _EPOCH
    self.seconds = delta.days * 86400 + delta.seconds
    self.nanos = delta.microseconds * 1000

  def ToDatetime(self, tzinfo=None):
    return _EPOCH + datetime.timedelta(seconds=self.seconds, microseconds=self.nanos // 1000)


class _DurationMixin:

  def ToTimedelta(self):
    return datetime.timedelta(seconds=self.seconds, microseconds=self.nanos // 1000)

  def FromTimedelta(self, td):
    self.seconds = td.days * 86400 + td.seconds
    self.nanos = td.microseconds * 1000

  def ToSeconds(self):
    return self.seconds

  def FromSeconds(self, s):
    self.seconds = s
    self.nanos = 0


_MIXINS = {
    'google.protobuf.Any': _AnyMixin,
    'google.protobuf.Timestamp': _TimestampMixin,
    'google.protobuf.Duration': _DurationMixin,
}


def _class_for(md):
  cls = _CLASSES.get(md.full_name)
  if cls is None:
    bases = (SymMessage,)
    if md.full_name in _MIXINS:
      bases = (_MIXINS[md.full_name], SymMessage)
    ns = {'_desc': md, 'DESCRIPTOR': md}
    cls = type(md.name, bases, ns)
    _CLASSES[md.full_name] = cls
    for nested in md.nested_types:
      type.__setattr__(cls, nested.name, _class_for(nested))
    for ed in md.enum_types:
      type.__setattr__(cls, ed.name, _EnumWrapper(ed))
      for v in ed.values:
        type.__setattr__(cls, v.name, v.number)
  return cls


def class_for_name(full_name):
  from google.protobuf import descriptor_pool
  return _class_for(descriptor_pool.Default().FindMessageTypeByName(full_name))


def build_module(mod, file_desc):
  for name, md in file_desc.message_types_by_name.items():
    setattr(mod, name, _class_for(md))
  for name, ed in file_desc.enum_types_by_name.items():
    setattr(mod, name, _EnumWrapper(ed))
    for v in ed.values:
      setattr(mod, v.name, v.number)


# ---- conversions to / from the real runtime (validation, replay, mixing with real well-known messages) ---------
def from_upb(real):
  cls = _class_for(real.DESCRIPTOR)
  new = cls()
  for f, v in real.ListFields():
    if f.is_repeated:
      rep = getattr(new, f.name)
      if f.cpp_type == FD.CPPTYPE_MESSAGE:
        list.extend(rep, [new._adopt(f.name, from_upb(x)) for x in v])
      else:
        list.extend(rep, list(v))
    elif f.cpp_type == FD.CPPTYPE_MESSAGE:
      new._values[f.name] = new._adopt(f.name, from_upb(v))
    else:
      new._values[f.name] = v
  if real.DESCRIPTOR.full_name == 'google.protobuf.Any' and real.value:
    try:
      from google.protobuf import descriptor_pool
      md = descriptor_pool.Default().FindMessageTypeByName(real.type_url.split('/')[-1])
      new._values['value'] = Snapshot(from_upb(_mf.GetMessageClass(md).FromString(real.value)))
    except KeyError:
      pass
  return new


def to_upb(sym):
  real = _mf.GetMessageClass(sym._desc)()
  for f in sym._desc.fields:
    if f.name not in sym._values:
      continue
    v = sym._values[f.name]
    if f.is_repeated:
      tgt = getattr(real, f.name)
      for x in v:
        if isinstance(x, SymMessage):
          tgt.add().CopyFrom(to_upb(x))
        else:
          tgt.append(x)
    elif isinstance(v, SymMessage):
      getattr(real, f.name).CopyFrom(to_upb(v))
    elif isinstance(v, Snapshot):
      setattr(real, f.name, to_upb(v.msg).SerializeToString(deterministic=True))
    else:
      setattr(real, f.name, v)
  return real


class _Namespace:
  pass


def wkt_module(proto_file, names):
  """A module-like namespace with sym classes for a well-known .proto file (e.g. any_pb2 -> .Any)."""
  from google.protobuf import descriptor_pool
  ns = _Namespace()
  fd = descriptor_pool.Default().FindFileByName(proto_file)
  for n in names:
    setattr(ns, n, _class_for(fd.message_types_by_name[n]))
  ns.DESCRIPTOR = fd
  return ns


def install_wkt(*modules):
  """Rebinds the google.protobuf / google.longrunning / google.rpc module globals of the given vizier modules to sym
  classes (harness-side rebinding; /repo is not touched)."""
  import importlib
  table = {
      'any_pb2': ('google/protobuf/any.proto', ['Any'], 'google.protobuf.any_pb2'),
      'timestamp_pb2': ('google/protobuf/timestamp.proto', ['Timestamp'], 'google.protobuf.timestamp_pb2'),
      'duration_pb2': ('google/protobuf/duration.proto', ['Duration'], 'google.protobuf.duration_pb2'),
      'empty_pb2': ('google/protobuf/empty.proto', ['Empty'], 'google.protobuf.empty_pb2'),
      'operations_pb2': ('google/longrunning/operations.proto', ['Operation', 'GetOperationRequest'],
                         'google.longrunning.operations_pb2'),
      'status_pb2': ('google/rpc/status.proto', ['Status'], 'google.rpc.status_pb2'),
  }
  cache = {}
  for m in modules:
    for attr, (pf, names, real) in table.items():
      if hasattr(m, attr):
        if attr not in cache:
          importlib.import_module(real)
          cache[attr] = wkt_module(pf, names)
        setattr(m, attr, cache[attr])
  return cache
