"""Probe: pure-Python protobuf message model generated from descriptors."""
import copy
from google.protobuf import descriptor as _d
from google.protobuf.message import Message as _PBMessage

FD = _d.FieldDescriptor
_SCALAR_DEFAULT = {
    FD.CPPTYPE_INT32: 0, FD.CPPTYPE_INT64: 0, FD.CPPTYPE_UINT32: 0, FD.CPPTYPE_UINT64: 0,
    FD.CPPTYPE_DOUBLE: 0.0, FD.CPPTYPE_FLOAT: 0.0, FD.CPPTYPE_BOOL: False, FD.CPPTYPE_ENUM: 0,
}
_CLASSES = {}


class Snapshot:
  def __init__(self, msg):
    self.msg = copy.deepcopy(msg)


class Repeated(list):
  def __init__(self, owner, field, cls):
    super().__init__()
    self._owner, self._field, self._cls = owner, field, cls

  def _touch(self):
    if self._owner is not None:
      self._owner._mark()

  def add(self, **kw):
    m = self._cls(**kw)
    list.append(self, m)
    self._touch()
    return m

  def append(self, x):
    list.append(self, x)
    self._touch()

  def extend(self, xs):
    list.extend(self, [copy.deepcopy(x) if isinstance(x, SymMessage) else x for x in xs])
    self._touch()

  def __deepcopy__(self, memo):
    r = Repeated(None, self._field, self._cls)
    list.extend(r, [copy.deepcopy(x, memo) for x in self])
    return r


class SymMessage(_PBMessage):
  _desc = None

  def __init__(self, **kw):
    object.__setattr__(self, '_values', {})
    object.__setattr__(self, '_parent', None)
    for k, v in kw.items():
      f = self._desc.fields_by_name[k]
      if f.is_repeated:
        getattr(self, k).extend(v)
      elif f.cpp_type == FD.CPPTYPE_MESSAGE:
        getattr(self, k).CopyFrom(v)
      else:
        setattr(self, k, v)

  # -- presence bookkeeping
  def _mark(self):
    p = self._parent
    if p is not None:
      parent, fname = p
      parent._set_present(fname, self)

  def _set_present(self, fname, value):
    f = self._desc.fields_by_name[fname]
    if f.containing_oneof is not None:
      for other in f.containing_oneof.fields:
        if other.name != fname:
          self._values.pop(other.name, None)
    self._values[fname] = value
    self._mark()

  def __getattr__(self, name):
    f = self._desc.fields_by_name.get(name)
    if f is None:
      raise AttributeError(name)
    vals = self._values
    if name in vals:
      return vals[name]
    if f.is_repeated:
      cls = _class_for(f.message_type) if f.cpp_type == FD.CPPTYPE_MESSAGE else None
      r = Repeated(self, f, cls)
      vals[name] = r
      return r
    if f.cpp_type == FD.CPPTYPE_MESSAGE:
      child = _class_for(f.message_type)()
      object.__setattr__(child, '_parent', (self, name))
      return child  # not stored until mutated
    if f.cpp_type == FD.CPPTYPE_STRING:
      return b'' if f.type == FD.TYPE_BYTES else ''
    return _SCALAR_DEFAULT[f.cpp_type]

  def __setattr__(self, name, value):
    f = self._desc.fields_by_name.get(name)
    if f is None:
      raise AttributeError(name)
    if f.is_repeated or f.cpp_type == FD.CPPTYPE_MESSAGE:
      raise AttributeError('Assignment not allowed to composite field ' + name)
    if f.cpp_type in (FD.CPPTYPE_DOUBLE, FD.CPPTYPE_FLOAT) and isinstance(value, int) and not isinstance(value, bool):
      value = float(value)
    self._set_present(name, value)

  def HasField(self, name):
    if name in self._desc.oneofs_by_name:
      return self.WhichOneof(name) is not None
    f = self._desc.fields_by_name[name]
    if f.is_repeated:
      raise ValueError('repeated')
    if f.cpp_type != FD.CPPTYPE_MESSAGE and f.containing_oneof is None:
      raise ValueError('no presence for ' + name)
    return name in self._values

  def WhichOneof(self, oneof):
    for f in self._desc.oneofs_by_name[oneof].fields:
      if f.name in self._values:
        return f.name
    return None

  def ClearField(self, name):
    self._values.pop(name, None)

  def CopyFrom(self, other):
    if other is self:
      return
    self._values.clear()
    if not isinstance(other, SymMessage):
      for f, v in other.ListFields():
        self._values[f.name] = v
      self._mark()
      return
    for k, v in other._values.items():
      v2 = copy.deepcopy(v)
      if isinstance(v2, SymMessage):
        object.__setattr__(v2, '_parent', (self, k))
      self._values[k] = v2
    self._mark()

  def _canon(self):
    out = {}
    for f in self._desc.fields:
      v = self._values.get(f.name)
      if v is None:
        continue
      if f.is_repeated:
        if len(v):
          out[f.name] = [x._canon() if isinstance(x, SymMessage) else x for x in v]
      elif isinstance(v, SymMessage):
        out[f.name] = v._canon()
      elif f.containing_oneof is not None or v != (_SCALAR_DEFAULT.get(f.cpp_type, '')):
        out[f.name] = v
    return out

  def __eq__(self, other):
    return type(other) is type(self) and self._canon() == other._canon()

  def __ne__(self, other):
    return not self == other

  __hash__ = None

  def __deepcopy__(self, memo):
    new = type(self)()
    for k, v in self._values.items():
      v2 = copy.deepcopy(v, memo)
      if isinstance(v2, SymMessage):
        object.__setattr__(v2, '_parent', (new, k))
      new._values[k] = v2
    return new

  def SerializeToString(self, **kw):
    return Snapshot(self)

  @classmethod
  def FromString(cls, s):
    return copy.deepcopy(s.msg)

  def __repr__(self):
    return '%s(%r)' % (self._desc.name, self._canon())


class _EnumWrapper:
  def __init__(self, ed):
    self._ed = ed
    for v in ed.values:
      setattr(self, v.name, v.number)

  def Name(self, number):
    for v in self._ed.values:
      if number == v.number:
        return v.name
    raise ValueError('Enum has no name defined for value')

  def Value(self, name):
    return self._ed.values_by_name[name].number


def _class_for(md):
  cls = _CLASSES.get(md.full_name)
  if cls is None:
    ns = {'_desc': md, 'DESCRIPTOR': md}
    cls = type(md.name, (SymMessage,), ns)
    _CLASSES[md.full_name] = cls
    for nested in md.nested_types:
      setattr(cls, nested.name, _class_for(nested))
    for ed in md.enum_types:
      setattr(cls, ed.name, _EnumWrapper(ed))
      for v in ed.values:
        setattr(cls, v.name, v.number)
  return cls


def build_module(mod, file_desc):
  for name, md in file_desc.message_types_by_name.items():
    setattr(mod, name, _class_for(md))
  for name, ed in file_desc.enum_types_by_name.items():
    setattr(mod, name, _EnumWrapper(ed))
