"""Builds vizier *_pb2 / *_pb2_grpc modules from /repo's .proto sources at import time (no protoc in this sandbox).

Back ends: upb (real protobuf runtime, default) or sym (env.symproto pure-Python model) chosen by PB_BACKEND.
"""
import importlib, importlib.abc, importlib.machinery, os, re, sys, types

from google.protobuf import descriptor_pb2, descriptor_pool, message_factory, symbol_database
from google.protobuf.internal import enum_type_wrapper

REPO = os.environ.get('VERIF_REPO', '/repo')
PROTO_DIR = os.path.join(REPO, 'vizier/_src/service')
PKG = 'vizier._src.service'

SCALARS = {
    'double': 1, 'float': 2, 'int64': 3, 'uint64': 4, 'int32': 5, 'fixed64': 6,
    'fixed32': 7, 'bool': 8, 'string': 9, 'bytes': 12, 'uint32': 13,
    'sfixed32': 15, 'sfixed64': 16, 'sint32': 17, 'sint64': 18,
}

TOKEN = re.compile(r'\s*(?:(//[^\n]*|/\*.*?\*/)|("(?:\\.|[^"\\])*")|([A-Za-z_][\w.]*)|(-?\d+)|(.))', re.S)


def tokenize(text):
  pos, out = 0, []
  while pos < len(text):
    m = TOKEN.match(text, pos)
    if not m:
      break
    pos = m.end()
    if m.group(1):
      continue
    tok = m.group(2) or m.group(3) or m.group(4) or m.group(5)
    if tok and tok.strip():
      out.append(tok)
  return out


class Parser:
  def __init__(self, name, text):
    self.t = tokenize(text)
    self.i = 0
    self.fd = descriptor_pb2.FileDescriptorProto(name=name)

  def peek(self):
    return self.t[self.i] if self.i < len(self.t) else None

  def next(self):
    tok = self.t[self.i]
    self.i += 1
    return tok

  def expect(self, tok):
    got = self.next()
    assert got == tok, (got, tok, self.t[max(0, self.i - 8):self.i + 3])

  def skip_balanced(self, open_, close):
    depth = 1
    while depth:
      tok = self.next()
      if tok == open_:
        depth += 1
      elif tok == close:
        depth -= 1

  def skip_statement(self):
    # skip to ';' honouring braces
    while True:
      tok = self.next()
      if tok == '{':
        self.skip_balanced('{', '}')
      elif tok == ';':
        return

  def parse(self):
    while self.peek() is not None:
      tok = self.next()
      if tok == 'syntax':
        self.expect('=')
        self.fd.syntax = self.next().strip('"')
        self.expect(';')
      elif tok == 'package':
        self.fd.package = self.next()
        self.expect(';')
      elif tok == 'import':
        if self.peek() in ('public', 'weak'):
          self.next()
        self.fd.dependency.append(self.next().strip('"'))
        self.expect(';')
      elif tok == 'option':
        self.skip_statement()
      elif tok == 'message':
        self.message(self.fd.message_type.add())
      elif tok == 'enum':
        self.enum(self.fd.enum_type.add())
      elif tok == 'service':
        self.service(self.fd.service.add())
      elif tok == ';':
        pass
      else:
        raise ValueError(tok)
    return self.fd

  def enum(self, e):
    e.name = self.next()
    self.expect('{')
    while self.peek() != '}':
      tok = self.next()
      if tok in ('option', 'reserved'):
        self.skip_statement()
        continue
      self.expect('=')
      v = e.value.add(name=tok, number=int(self.next()))
      if self.peek() == '[':
        self.next(); self.skip_balanced('[', ']')
      self.expect(';')
    self.expect('}')

  def field(self, msg, first, oneof_index=None):
    f = msg.field.add()
    label = 'optional_implicit'
    if first in ('repeated', 'optional', 'required'):
      label = first
      first = self.next()
    if first == 'map':
      raise NotImplementedError('map fields')
    ftype = first
    f.name = self.next()
    self.expect('=')
    f.number = int(self.next())
    if self.peek() == '[':
      self.next(); self.skip_balanced('[', ']')
    self.expect(';')
    f.label = 3 if label == 'repeated' else 1
    if ftype in SCALARS:
      f.type = SCALARS[ftype]
    else:
      f.type_name = ftype  # resolved by the pool with protobuf scoping rules
    f.json_name = re.sub(r'_([a-z])', lambda m: m.group(1).upper(), f.name)
    if oneof_index is not None:
      f.oneof_index = oneof_index
    elif label == 'optional':
      # proto3 optional -> synthetic oneof, appended after real oneofs later
      f.proto3_optional = True
    return f

  def message(self, msg):
    msg.name = self.next()
    self.expect('{')
    proto3_optionals = []
    while self.peek() != '}':
      tok = self.next()
      if tok == 'message':
        self.message(msg.nested_type.add())
      elif tok == 'enum':
        self.enum(msg.enum_type.add())
      elif tok == 'option':
        self.skip_statement()
      elif tok == 'reserved':
        self.skip_statement()
      elif tok == 'oneof':
        o = msg.oneof_decl.add(name=self.next())
        idx = len(msg.oneof_decl) - 1
        self.expect('{')
        while self.peek() != '}':
          t = self.next()
          if t == 'option':
            self.skip_statement()
          else:
            self.field(msg, t, oneof_index=idx)
        self.expect('}')
      elif tok == ';':
        pass
      else:
        f = self.field(msg, tok)
        if f.proto3_optional:
          proto3_optionals.append(f)
    self.expect('}')
    for f in proto3_optionals:
      msg.oneof_decl.add(name='_' + f.name)
      f.oneof_index = len(msg.oneof_decl) - 1

  def service(self, svc):
    svc.name = self.next()
    self.expect('{')
    while self.peek() != '}':
      tok = self.next()
      if tok == 'option':
        self.skip_statement()
        continue
      assert tok == 'rpc', tok
      m = svc.method.add(name=self.next())
      self.expect('(')
      if self.peek() == 'stream':
        self.next(); m.client_streaming = True
      m.input_type = self.next()
      self.expect(')')
      self.expect('returns')
      self.expect('(')
      if self.peek() == 'stream':
        self.next(); m.server_streaming = True
      m.output_type = self.next()
      self.expect(')')
      if self.peek() == '{':
        self.next(); self.skip_balanced('{', '}')
      else:
        self.expect(';')
    self.expect('}')


_DEP_MODULES = {
    'google/protobuf/any.proto': 'google.protobuf.any_pb2',
    'google/protobuf/empty.proto': 'google.protobuf.empty_pb2',
    'google/protobuf/duration.proto': 'google.protobuf.duration_pb2',
    'google/protobuf/struct.proto': 'google.protobuf.struct_pb2',
    'google/protobuf/timestamp.proto': 'google.protobuf.timestamp_pb2',
    'google/protobuf/wrappers.proto': 'google.protobuf.wrappers_pb2',
    'google/api/annotations.proto': 'google.api.annotations_pb2',
    'google/api/client.proto': 'google.api.client_pb2',
    'google/api/field_behavior.proto': 'google.api.field_behavior_pb2',
    'google/api/resource.proto': 'google.api.resource_pb2',
    'google/longrunning/operations.proto': 'google.longrunning.operations_pb2',
}


def build_pb2(modname):
  base = modname.rsplit('.', 1)[1][:-len('_pb2')]
  path = os.path.join(PROTO_DIR, base + '.proto')
  fd = Parser(base + '.proto', open(path).read()).parse()
  for dep in fd.dependency:
    if dep in _DEP_MODULES:
      importlib.import_module(_DEP_MODULES[dep])
    else:
      importlib.import_module(PKG + '.' + dep[:-len('.proto')] + '_pb2')
  pool = descriptor_pool.Default()
  file_desc = pool.AddSerializedFile(fd.SerializeToString())
  mod = types.ModuleType(modname)
  mod.DESCRIPTOR = file_desc
  mod._services = {s.name: s for s in file_desc.services_by_name.values()}
  if os.environ.get('PB_BACKEND') == 'sym':
    from env import symproto
    symproto.build_module(mod, file_desc)
    return mod
  for name, md in file_desc.message_types_by_name.items():
    setattr(mod, name, message_factory.GetMessageClass(md))
  for name, ed in file_desc.enum_types_by_name.items():
    setattr(mod, name, enum_type_wrapper.EnumTypeWrapper(ed))
    for v in ed.values:
      setattr(mod, v.name, v.number)
  mod._services = {s.name: s for s in file_desc.services_by_name.values()}
  return mod


def build_pb2_grpc(modname):
  import grpc
  pb2 = importlib.import_module(modname[:-len('_grpc')])
  mod = types.ModuleType(modname)
  for sname, sd in pb2._services.items():
    methods = []
    for m in sd.methods:
      req = message_factory.GetMessageClass(m.input_type)
      resp = message_factory.GetMessageClass(m.output_type)
      methods.append((m.name, '/%s/%s' % (sd.full_name, m.name), req, resp))

    def make_stub(methods):
      def __init__(self, channel):
        for name, path, req, resp in methods:
          setattr(self, name, channel.unary_unary(
              path, request_serializer=req.SerializeToString,
              response_deserializer=resp.FromString))
      return __init__
    stub = type(sname + 'Stub', (object,), {'__init__': make_stub(methods)})

    def make_unimpl(name):
      def unimpl(self, request, context):
        context.set_code(grpc.StatusCode.UNIMPLEMENTED)
        context.set_details('Method not implemented!')
        raise NotImplementedError('Method not implemented!')
      unimpl.__name__ = name
      return unimpl
    servicer = type(sname + 'Servicer', (object,),
                    {name: make_unimpl(name) for name, *_ in methods})

    def make_adder(methods, full_name):
      def add(servicer, server):
        handlers = {
            name: grpc.unary_unary_rpc_method_handler(
                getattr(servicer, name), request_deserializer=req.FromString,
                response_serializer=resp.SerializeToString)
            for name, path, req, resp in methods}
        server.add_generic_rpc_handlers(
            (grpc.method_handlers_generic_handler(full_name, handlers),))
      return add
    setattr(mod, sname + 'Stub', stub)
    setattr(mod, sname + 'Servicer', servicer)
    setattr(mod, 'add_%sServicer_to_server' % sname, make_adder(methods, sd.full_name))
  return mod


class Finder(importlib.abc.MetaPathFinder, importlib.abc.Loader):
  def find_spec(self, fullname, path, target=None):
    if fullname.startswith(PKG + '.') and (fullname.endswith('_pb2') or fullname.endswith('_pb2_grpc')):
      base = fullname.rsplit('.', 1)[1]
      base = base[:-len('_pb2_grpc')] if base.endswith('_grpc') else base[:-len('_pb2')]
      if os.path.exists(os.path.join(PROTO_DIR, base + '.proto')) and not os.path.exists(
          os.path.join(PROTO_DIR, fullname.rsplit('.', 1)[1] + '.py')):
        return importlib.machinery.ModuleSpec(fullname, self)
    return None

  def create_module(self, spec):
    if spec.name.endswith('_pb2_grpc'):
      return build_pb2_grpc(spec.name)
    return build_pb2(spec.name)

  def exec_module(self, module):
    pass


def install():
  if not any(isinstance(f, Finder) for f in sys.meta_path):
    sys.meta_path.insert(0, Finder())


install()
