#!/bin/bash
# Builds /verif/.venv (overlay on /venv + crosshair-tool, z3-solver from the offline wheelhouse). Idempotent.
set -e
cd "$(dirname "$0")"
V=.venv
if [ ! -x $V/bin/python ] || ! $V/bin/python -c "import crosshair, z3" 2>/dev/null; then
  rm -rf $V
  /venv/bin/python -m venv $V
  SP=$($V/bin/python -c "import sysconfig; print(sysconfig.get_paths()['purelib'])")
  printf "import site; site.addsitedir('/venv/lib/python3.12/site-packages')\n" > $SP/_verif_overlay.pth
  PIP_NO_INDEX=1 $V/bin/pip install -q --no-index --find-links /opt/veriftools/wheels crosshair-tool z3-solver >/dev/null
fi
$V/bin/python -c "import crosshair, z3; print('venv ok', crosshair.__version__, z3.get_version_string())"
# the pure-Python protobuf model must agree with the real runtime on vizier's own converter / servicer flows
$V/bin/python env/symproto_selftest.py
