"""Runs the registered checks against every kept seeded change, in a scratch worktree (VERIF_REPO), and records the result
in seeded/<id>/meta.json['detection'].   usage: run_seeds.py [seed-id ...] [--props=C01,C02] [--tier=quick] [--wt=/tmp/wt_seedN]"""
import json, os, subprocess, sys, time

VERIF = '/verif'
args = [a for a in sys.argv[1:] if not a.startswith('--')]
opts = dict(a[2:].split('=', 1) for a in sys.argv[1:] if a.startswith('--') and '=' in a)
WT = opts.get('wt', '/tmp/wt_seed')
seeds = args or sorted(d for d in os.listdir(VERIF + '/seeded') if not d.startswith('_') and os.path.isdir(VERIF + '/seeded/' + d))
sys.path.insert(0, VERIF)
from engine import registry
head = subprocess.run(['git', '-C', '/repo', 'log', '--format=%h', '-1'], capture_output=True, text=True).stdout.strip()
subprocess.run(['git', '-C', '/repo', 'worktree', 'remove', '--force', WT], capture_output=True)
subprocess.run(['git', '-C', '/repo', 'worktree', 'add', '-q', '--detach', WT, 'HEAD'], check=True)
env = dict(os.environ, VERIF_REPO=WT, VZ_REPO=WT, VERIF_EVIDENCE_DIR=WT + '_evidence', VERIF_REPLAY_DIR=WT + '_replays')


def demo(path):
  try:
    p = subprocess.run(['/venv/bin/python', path], env=env, cwd='/tmp', capture_output=True, timeout=900)
    return p.returncode
  except subprocess.TimeoutExpired:
    return -9


for sd in seeds:
  d = os.path.join(VERIF, 'seeded', sd)
  meta = json.load(open(os.path.join(d, 'meta.json')))
  subprocess.run(['git', '-C', WT, 'checkout', '-q', '--', '.'])
  subprocess.run(['git', '-C', WT, 'clean', '-fdq'])
  det = {'repo_head': head, 'at': time.strftime('%Y-%m-%d %H:%M')}
  det['demo_clean_rc'] = demo(os.path.join(d, 'demo.py'))
  a = subprocess.run(['git', '-C', WT, 'apply', os.path.join(d, 'patch.diff')], capture_output=True)
  det['applies'] = a.returncode == 0
  if det['applies']:
    det['demo_patched_rc'] = demo(os.path.join(d, 'demo.py'))
    det['still_a_bug'] = det['demo_clean_rc'] == 0 and det['demo_patched_rc'] != 0
    props = opts.get('props', meta.get('check_props') or meta['property']).split(',')
    det['checks'] = {}
    for pid in props:
      if pid not in registry.PROPS:
        det['checks'][pid] = {'status': 'no check registered'}
        continue
      t0 = time.time()
      p = subprocess.run(['./check', pid, '--tier', opts.get('tier', 'quick')], cwd=VERIF, env=env, capture_output=True, text=True)
      lines = [l for l in p.stdout.splitlines() if 'VIOLATION' in l or 'counterexample' in l or 'HARNESS-ERROR' in l]
      det['checks'][pid] = {'exit': p.returncode, 'detected': p.returncode == 1, 'lines': [l[:300] for l in lines][:6],
                            'wall_s': round(time.time() - t0)}
  meta['detection'] = det
  json.dump(meta, open(os.path.join(d, 'meta.json'), 'w'), indent=1)
  print(sd, 'applies' if det['applies'] else 'DOES NOT APPLY', 'bug' if det.get('still_a_bug') else 'not-a-bug-now',
        {k: v.get('exit', v.get('status')) for k, v in det.get('checks', {}).items()}, flush=True)
subprocess.run(['git', '-C', WT, 'checkout', '-q', '--', '.'])
subprocess.run(['git', '-C', '/repo', 'worktree', 'remove', '--force', WT])
