"""Moves confirmed incoming seeds to /verif/seeded/<PROP>-<tag><k>/ (patch.diff, demo.py, notes.md, meta.json)."""
import json, os, re, shutil, sys
inc = '/verif/seeded/_incoming'
rep = json.load(open(os.path.join(inc, 'verify_report.json')))
for key, r in sorted(rep.items()):
  tag, k = key.split('/')
  if not r.get('confirmed'):
    continue
  prop = tag[:3]
  dst = '/verif/seeded/%s-%s%s' % (prop, tag[3:], k)
  if os.path.exists(os.path.join(dst, 'meta.json')):
    continue
  os.makedirs(dst, exist_ok=True)
  src = os.path.join(inc, tag)
  ported = os.path.join(src, 'patch_%s.ported.diff' % k)
  shutil.copy(ported if os.path.exists(ported) else os.path.join(src, 'patch_%s.diff' % k), os.path.join(dst, 'patch.diff'))
  if os.path.exists(ported):
    shutil.copy(os.path.join(src, 'patch_%s.diff' % k), os.path.join(dst, 'patch.original.diff'))
  shutil.copy(os.path.join(src, 'demo_%s.py' % k), os.path.join(dst, 'demo.py'))
  notes = os.path.join(src, 'notes_%s.md' % k)
  txt = open(notes).read() if os.path.exists(notes) else ''
  if txt:
    open(os.path.join(dst, 'notes.md'), 'w').write(txt)
  meta = {
      'property': prop,
      'origin': 'fresh sub-agent given only the property text and a scratch worktree (tag %s, patch %s)' % (tag, k),
      'needs_to_manifest': txt.strip()[:1500],
      'confirmed_by_me': {
          'what_i_ran': 'tools/verify_seeds.py in scratch worktree /tmp/wt_verify: git apply patch; baseline pytest '
                        '(131 passed required); demo.py on clean tree (must exit 0) and on patched tree (must exit != 0)',
          'tests': r.get('tests'), 'demo_clean_rc': r.get('demo_clean_rc'), 'demo_patched_rc': r.get('demo_patched_rc'),
          'against_repo_commit': 'see git log of /repo at adoption time',
      },
      'ported': os.path.exists(ported),
      'detection': {},
  }
  json.dump(meta, open(os.path.join(dst, 'meta.json'), 'w'), indent=1)
  print('adopted', dst)
