"""Regenerates the seeded-changes table in DESIGN.md from seeded/*/meta.json."""
import json, os, re
rows = []
for d in sorted(os.listdir('/verif/seeded')):
  mp = os.path.join('/verif/seeded', d, 'meta.json')
  if not os.path.exists(mp):
    continue
  m = json.load(open(mp))
  det = m.get('detection', {})
  first = (m.get('needs_to_manifest') or '').strip().splitlines()
  title = next((l.strip('# ').strip() for l in first if l.strip()), '')[:110]
  if det.get('applies') is False:
    verdict = 'does not apply to current HEAD'
  elif det.get('still_a_bug') is False and not any(c.get('detected') for c in det.get('checks', {}).values()):
    verdict = 'its demonstration no longer fails after a later fix in /repo (not counted)'
  else:
    caught = [p for p, c in det.get('checks', {}).items() if c.get('detected')]
    missed = [p for p, c in det.get('checks', {}).items() if not c.get('detected')]
    obl = sorted({l.split()[0] for c in det.get('checks', {}).values() for l in c.get('lines', []) if l.startswith('C')})
    verdict = ('**caught** by ' + ', '.join(obl[:3])) if caught else ('missed' if missed else 'not run')
  rows.append('| %s | %s | %s |' % (d, title.replace('|', '/'), verdict))
table = '| seed | change | result of the registered quick checks |\n|---|---|---|\n' + '\n'.join(rows)
p = '/verif/DESIGN.md'
s = open(p).read()
s = re.sub(r'<!-- SEED-TABLE-BEGIN -->.*<!-- SEED-TABLE-END -->', '<!-- SEED-TABLE-BEGIN -->\n' + table + '\n<!-- SEED-TABLE-END -->', s, flags=re.S)
open(p, 'w').write(s)
print(len(rows), 'rows')
