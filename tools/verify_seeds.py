"""Confirms incoming seeded changes in a scratch worktree: patch applies, 131 baseline tests pass, demo fails with / passes without.

usage: verify_seeds.py <incoming dir> <report.json> [tag ...]
"""
import json, os, re, subprocess, sys

inc, report = sys.argv[1], sys.argv[2]
tags = sys.argv[3:] or sorted(d for d in os.listdir(inc) if os.path.isdir(os.path.join(inc, d)))
WT = os.environ.get('VERIF_WT', '/tmp/wt_verify')
subprocess.run(['git', '-C', '/repo', 'worktree', 'remove', '--force', WT], capture_output=True)
subprocess.run(['git', '-C', '/repo', 'worktree', 'add', '-q', '--detach', WT, 'HEAD'], check=True)
res = json.load(open(report)) if os.path.exists(report) else {}
env = dict(os.environ, VZ_REPO=WT)


def demo(path):
  try:
    p = subprocess.run(['/venv/bin/python', path], env=env, cwd='/tmp', capture_output=True, timeout=900)
    return p.returncode, (p.stdout + p.stderr).decode('utf8', 'replace')[-600:]
  except subprocess.TimeoutExpired:
    return -9, 'timeout'


for tag in tags:
  d = os.path.join(inc, tag)
  for f in sorted(os.listdir(d)):
    m = re.match(r'patch_(\d+)\.diff$', f)
    if not m:
      continue
    k = m.group(1)
    key = '%s/%s' % (tag, k)
    if key in res and res[key].get('complete'):
      continue
    r = {'patch': os.path.join(d, f)}
    dm = os.path.join(d, 'demo_%s.py' % k)
    subprocess.run(['git', '-C', WT, 'checkout', '--', '.'])
    subprocess.run(['git', '-C', WT, 'clean', '-fdq'])
    r['demo_clean_rc'], r['demo_clean_out'] = demo(dm)
    a = subprocess.run(['git', '-C', WT, 'apply', os.path.join(d, f)], capture_output=True)
    r['applies'] = a.returncode == 0
    if r['applies']:
      r['demo_patched_rc'], r['demo_patched_out'] = demo(dm)
      t = subprocess.run('cd %s && /venv/bin/python -m pytest -q -p no:cacheprovider --timeout=900 --continue-on-collection-errors 2>&1 | tail -1' % WT,
                         shell=True, capture_output=True)
      r['tests'] = t.stdout.decode().strip()
      r['tests_ok'] = '131 passed' in r['tests'] and 'failed' not in r['tests']
    r['confirmed'] = bool(r.get('applies') and r.get('tests_ok') and r['demo_clean_rc'] == 0 and r.get('demo_patched_rc', 0) != 0)
    r['complete'] = True
    res[key] = r
    json.dump(res, open(report, 'w'), indent=1)
    print(key, 'confirmed' if r['confirmed'] else 'NOT CONFIRMED', r.get('tests'), r['demo_clean_rc'], r.get('demo_patched_rc'), flush=True)
subprocess.run(['git', '-C', WT, 'checkout', '--', '.'])
subprocess.run(['git', '-C', '/repo', 'worktree', 'remove', '--force', WT])
