"""Rewrites the last column (obligations quick / all) of the summary table in DESIGN.md from engine/registry.py."""
import re, sys
sys.path.insert(0, '/verif')
from engine import registry
p = '/verif/DESIGN.md'
s = open(p).read()
out = []
for line in s.splitlines():
  m = re.match(r'^\| (C\d\d) \|', line)
  if m and m.group(1) in registry.PROPS:
    obl = registry.PROPS[m.group(1)]['obligations']
    q = sum(1 for o in obl if o.get('quick'))
    cells = line.rstrip().rstrip('|').split('|')
    cells[-1] = ' %d / %d ' % (q, len(obl))
    line = '|'.join(cells) + '|'
  out.append(line)
open(p, 'w').write('\n'.join(out) + '\n')
print('updated')
