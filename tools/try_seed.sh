#!/bin/bash
# usage: tools/try_seed.sh <patch.diff> <property id> [extra args for check]   -- applies to /repo, runs check, reverts
P=$1; ID=$2; shift 2
cd /repo && git apply "$P" || { echo "APPLY FAILED $P"; exit 9; }
cd /verif && VERIF_EVIDENCE_DIR=/tmp/try_seed_ev VERIF_REPLAY_DIR=/tmp/try_seed_replays ./check $ID "$@" > /tmp/try_seed.$$.log 2>&1; rc=$?
cd /repo && git checkout -- . 
echo "== $P on $ID: exit $rc"; grep -E "VIOLATION|HARNESS-ERROR|counterexample|KNOWN" /tmp/try_seed.$$.log | cut -c1-400; rm -f /tmp/try_seed.$$.log
