"""Sandbox shim (NOT part of google/vizier): makes `vizier` importable here.

This sandbox has no protoc and a broken equinox, so vizier's *_pb2 modules are built at import time from the
.proto files of the worktree given in $VZ_REPO, and a tiny equinox stand-in is put on sys.path.

usage (first lines of your script):
    import os, sys
    os.environ['VZ_REPO'] = '/tmp/wt_xxx'          # your worktree
    sys.path.insert(0, '/tmp/vzenv'); import vzboot
    from vizier.service import pyvizier as vz ...
Run with /venv/bin/python.
"""
import os, sys
REPO = os.environ['VZ_REPO']
os.environ['VERIF_REPO'] = REPO
os.environ.setdefault('JAX_PLATFORMS', 'cpu')
for p in (REPO, os.path.join(os.path.dirname(os.path.abspath(__file__)), 'stubs')):
  if p in sys.path:
    sys.path.remove(p)
  sys.path.insert(0, p)
import pbgen  # noqa
