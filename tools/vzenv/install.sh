#!/bin/bash
# recreates /tmp/vzenv (the import shim the seeded demos expect) from committed files
H=$(cd "$(dirname "$0")" && pwd)
mkdir -p /tmp/vzenv && cp "$H/vzboot.py" /tmp/vzenv/ && cp "$H/../../env/pbgen.py" /tmp/vzenv/ && rm -rf /tmp/vzenv/stubs && cp -r "$H/../../env/stubs" /tmp/vzenv/stubs
