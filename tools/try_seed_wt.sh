#!/bin/bash
# usage: tools/try_seed_wt.sh <patch.diff> <property id> [extra args for check]
# applies the patch in a scratch worktree of /repo (never /repo itself), runs the check against it, removes the worktree
P=$(readlink -f "$1"); ID=$2; shift 2
WT=/tmp/wt_try_$$
git -C /repo worktree add -q --detach $WT HEAD || exit 9
( cd $WT && git apply "$P" ) || { echo "APPLY FAILED $P"; git -C /repo worktree remove --force $WT; exit 9; }
cd /verif && VERIF_REPO=$WT VERIF_EVIDENCE_DIR=${WT}_ev VERIF_REPLAY_DIR=${WT}_replays ./check $ID "$@" > ${WT}.log 2>&1; rc=$?
echo "== $P on $ID: exit $rc"; grep -E "VIOLATION|HARNESS-ERROR|counterexample|KNOWN" ${WT}.log | cut -c1-400
git -C /repo worktree remove --force $WT; rm -rf ${WT}_ev ${WT}_replays ${WT}.log
