"""C08: a client program observes the same results against the in-process service, a gRPC server, and a gRPC server whose
algorithms run in a separate Pythia server.

The three deployments are REAL: a VizierServicer object, vizier_server.DefaultVizierServer and
vizier_server.DistributedPythiaVizierServer on localhost (real grpc C core), started once per checker process; every
explored path uses a fresh owner so paths do not interfere.  The client program (pre-state, call kind, arguments) is
symbolic and concretised by solver branching; it is executed through clients.Study / clients.Trial against the three
deployments (outside tracing) and the observable results / client-level exception classes must coincide.

Encoded (real code): clients.Study/Trial, vizier_client.VizierClient, vizier_server.*, VizierServicer, PythiaServicer,
ServicePolicySupporter, stubs_util, grpc_util.handle_exception, over real gRPC.
"""
import itertools
import os

from engine.hsupport import NoTracing, cbool, conc, finish, known, reach
from harness import svc
from harness.svc import ACTIVE, INFEASIBLE, REQUESTED, STOPPING, SUCCEEDED
from vizier._src.service import clients
from vizier._src.service import constants
from vizier._src.service import vizier_client
from vizier._src.service import vizier_server
from vizier._src.service import vizier_service
from vizier.service import pyvizier as vz

UNBLOCK = ['sqlite3.connect', 'sqlite3.connect/handle', 'socket']
ASSUMPTIONS = [
    'real gRPC servers on localhost inside the checker process (one DefaultVizierServer, one DistributedPythiaVizierServer)',
    'algorithm GRID_SEARCH (deterministic) so that suggested parameters are comparable across deployments',
    'the advisory early-stopping answer is not compared; the recycle period of the deployments differs by configuration',
]
_DEPLOY = {}
_COUNTER = itertools.count()


def _deployments(sql):
  """Returns [(name, service object usable by VizierClient, datastore)] -- started once."""
  key = 'sql' if sql else 'ram'
  if key not in _DEPLOY:
    url = constants.SQL_MEMORY_URL if sql else None
    local = vizier_service.VizierServicer(database_url=url)
    grpc1 = vizier_server.DefaultVizierServer(database_url=url)
    grpc2 = vizier_server.DistributedPythiaVizierServer(database_url=url)
    _DEPLOY[key] = [('local', local, local.datastore), ('grpc', grpc1.stub, grpc1.datastore),
                    ('grpc+pythia', grpc2.stub, grpc2.datastore)]
    _DEPLOY[key + '_keep'] = (grpc1, grpc2)
  return _DEPLOY[key]


def _config():
  sc = vz.StudyConfig(algorithm='GRID_SEARCH')
  sc.search_space.root.add_discrete_param('x', [0.0, 0.25, 0.5, 0.75, 1.0])
  sc.metric_information.append(vz.MetricInformation('m', goal=vz.ObjectiveMetricGoal.MAXIMIZE))
  return sc


def _study(service, ds, owner, t1, t2, study_state, config=None):
  """Creates the study through the public CreateStudy path and fills trials directly (driving the unit)."""
  from vizier._src.service import study_pb2, vizier_service_pb2
  req = vizier_service_pb2.CreateStudyRequest(parent='owners/%s' % owner, study=study_pb2.Study(
      display_name='s', study_spec=(config or _config()).to_proto()))
  st = service.CreateStudy(req)
  name = st.name
  if t1:
    ds.create_trial(svc.make_trial(1, t1, client='w' if t1 in (ACTIVE, STOPPING) else '', n_meas=1,
                                   final=1.5 if t1 == SUCCEEDED else None, reason='why' if t1 == INFEASIBLE else '',
                                   study=name, x=0.5))
  if t2:
    ds.create_trial(svc.make_trial(2, SUCCEEDED, client='v', final=2.5, study=name, x=0.25))
  if study_state == 0:
    ds.delete_study(name)               # the handle outlives the study (deleted by somebody else meanwhile)
  elif study_state != 1:
    s = ds.load_study(name)
    s.state = study_state
    ds.update_study(s)
  return clients.Study(vizier_client.VizierClient(name, 'unused', service))


def _trial_obs(t):
  return (t.id, t.status.name, t.infeasible, sorted((k, v.value) for k, v in t.parameters.items()),
          None if t.final_measurement is None else sorted((k, m.value) for k, m in t.final_measurement.metrics.items()),
          len(t.measurements))


def _program(study, kind, target, a):
  """One client-level call; returns a comparable observation."""
  if kind == 0:
    return sorted(_trial_obs(t.materialize()) for t in _bounded(lambda: study.suggest(count=1 + a, client_id='w')))
  if kind == 1:
    return _trial_obs(study.get_trial(target).materialize())
  if kind == 2:
    t = study.get_trial(target)
    m = t.complete(vz.Measurement({'m': 7.0})) if a == 0 else t.complete(infeasible_reason='bad')
    return (None if m is None else sorted((k, v.value) for k, v in m.metrics.items()), _trial_obs(t.materialize()))
  if kind == 3:
    t = study.get_trial(target)
    t.add_measurement(vz.Measurement({'m': 9.0}, steps=3))
    return _trial_obs(t.materialize())
  if kind == 4:
    t = study.get_trial(target)
    t.stop()
    return _trial_obs(t.materialize())
  if kind == 5:
    study.get_trial(target).delete()
    return sorted(_trial_obs(t) for t in study.trials().get())
  if kind == 6:
    return sorted(_trial_obs(t) for t in study.trials().get())
  if kind == 7:
    return sorted(_trial_obs(t) for t in study.optimal_trials().get())
  if kind == 8:
    study.set_state([vz.StudyState.ACTIVE, vz.StudyState.ABORTED, vz.StudyState.COMPLETED][a])
    return study.materialize_state().name
  if kind == 9:
    t = study.add_trial(vz.Trial(parameters={'x': 0.75 if a == 0 else 0.3}))
    return _trial_obs(t.materialize())
  if kind == 10:
    return sorted(study.get_trial(target).parameters.items())
  if kind == 11:
    study.delete()
    try:
      clients.Study.from_resource_name(study.resource_name)
      return 'still there'
    except clients.ResourceNotFoundError:
      return 'ResourceNotFoundError'
  raise AssertionError(kind)


def _observe(study, kind, target, a):
  import grpc
  try:
    return ('ok', _program(study, kind, target, a))
  except clients.ResourceNotFoundError:
    return ('exc', 'ResourceNotFoundError')
  except grpc.RpcError as e:  # noqa
    return ('exc', 'RpcError:' + e.code().name)
  except Exception as e:  # noqa
    return ('exc', type(e).__name__)


def _run(sql, kind, target, a, t1, t2, study_state, args, config=None):
  with NoTracing():
    owner = 'p%d_%d' % (os.getpid(), next(_COUNTER))
    outs = []
    for name, service, ds in _deployments(sql):
      study = _study(service, ds, owner, t1, t2, study_state, config)
      # the data a client can read afterwards is part of the observation
      first = _observe(study, kind, target, a)
      after = _observe(study, 6, 0, 0) if kind != 11 else None
      outs.append((first, after))
    ok = outs[0] == outs[1] == outs[2]
    tag = 'kind%d:%s' % (kind, outs[0][0][1] if outs[0][0][0] == 'exc' else 'ok')
    if not ok and study_state == 0 and _deleted_study_signature(outs) and known(KF_DELETED):
      reach('known:' + tag)
      return finish(True, args, obs='known finding ' + KF_DELETED)
  reach(tag)
  return finish(ok, args, obs=None if ok else {'local': outs[0], 'grpc': outs[1], 'grpc+pythia': outs[2]})


KF_DELETED = 'C08-call-on-deleted-study-error-class-differs'


def _deleted_study_signature(outs):
  """Open finding: on a study deleted after the handle was created the server-side custom_errors.NotFoundError reaches an
  in-process client as it is, while over gRPC it arrives as RpcError(UNKNOWN).  Exactly that difference, nothing else."""
  def norm(x):
    if x == ('exc', 'RpcError:UNKNOWN'):
      return ('exc', 'NotFoundError')
    return x
  local = outs[0]
  if ('exc', 'NotFoundError') not in local:
    return False
  return all(tuple(norm(x) for x in o) == local for o in outs[1:])


def client_call(sql: bool, kind: int, target: int, a: int, t1: int, t2: bool, study_state: int) -> bool:
  """
  pre: 0 <= kind <= 11 and 1 <= target <= 3 and 0 <= a <= 2 and 0 <= t1 <= 5 and 0 <= study_state <= 3
  post: _
  """
  kind = conc(kind, 0, 11)
  sl = os.environ.get('VERIF_SLICE')
  if sl is not None and kind != int(sl):
    return True
  sql, target, a = cbool(sql), conc(target, 1, 3), conc(a, 0, 2)
  t1, t2, study_state = conc(t1, 0, 5), cbool(t2), conc(study_state, 0, 3)
  if kind in (0, 6, 7, 8, 9, 11) and target != 1:
    return True
  if kind in (1, 3, 4, 5, 6, 7, 10, 11) and a != 0:
    return True
  if kind in (0, 2, 9) and a > 1:
    return True
  return _run(sql, kind, target, a, t1, 1 if t2 else 0, study_state, (sql, kind, target, a, t1, t2, study_state))


def _config_large():
  """A study whose proto is large (hundreds of parameters, long metadata): sizes matter on a real wire."""
  sc = vz.StudyConfig(algorithm='GRID_SEARCH')
  for i in range(400):
    sc.search_space.root.add_float_param('learning_rate_of_layer_%03d' % i, 0.0, 1.0)
  sc.metric_information.append(vz.MetricInformation('m', goal=vz.ObjectiveMetricGoal.MAXIMIZE))
  sc.metadata.ns('user')['notes'] = 'n' * 20000
  return sc


def client_call_large(sql: bool, kind: int, a: int, study_state: int) -> bool:
  """
  pre: 0 <= kind <= 4 and 0 <= a <= 2 and 1 <= study_state <= 3
  post: _
  """
  sql, kind, a, study_state = cbool(sql), [0, 6, 7, 8, 11][conc(kind, 0, 4)], conc(a, 0, 2), conc(study_state, 1, 3)
  if kind != 8 and a > (1 if kind == 0 else 0):
    return True
  with NoTracing():
    cfg = _config_large()
  return _run(sql, kind, 1, a, 0, 0, study_state, (sql, [0, 6, 7, 8, 11].index(kind), a, study_state), config=cfg)


# ---- custom policy factory, failing policies, and endpoint switching -------------------------------------------
from vizier import pythia as _pythia  # noqa: E402


class _FixedPolicy(_pythia.Policy):
  """Suggests x = 0.75 always; optionally fails."""

  def __init__(self, fail=None):
    self._fail = fail

  def suggest(self, request):
    if self._fail is not None:
      raise self._fail
    return _pythia.SuggestDecision([vz.TrialSuggestion({'x': 0.75}) for _ in range(request.count)])

  def early_stop(self, request):
    if _STOP[0] is None:
      return _pythia.EarlyStopDecisions()
    return _pythia.EarlyStopDecisions([_pythia.EarlyStopDecision(id=i, reason='fixed', should_stop=_STOP[0])
                                       for i in (request.trial_ids or [1])])


_STOP = [None]        # None: no decisions; True / False: the fixed answer of the early-stopping algorithm
_FAIL = [None]
_FACTORY_FAIL = [None]


def _custom_factory(problem_statement, algorithm, policy_supporter, study_name):
  if _FACTORY_FAIL[0] is not None:
    raise _FACTORY_FAIL[0]              # e.g. what DefaultPolicyFactory does for an unregistered algorithm name
  return _FixedPolicy(_FAIL[0])


def _custom_deployments():
  if 'custom' not in _DEPLOY:
    from vizier._src.service import pythia_service
    local = vizier_service.VizierServicer(database_url=None)
    local.default_pythia_service = pythia_service.PythiaServicer(local, policy_factory=_custom_factory)
    grpc1 = vizier_server.DefaultVizierServer(database_url=None, policy_factory=_custom_factory)
    grpc2 = vizier_server.DistributedPythiaVizierServer(database_url=None, policy_factory=_custom_factory)
    _DEPLOY['custom'] = [('local', local, local.datastore), ('grpc', grpc1.stub, grpc1.datastore),
                         ('grpc+pythia', grpc2.stub, grpc2.datastore)]
    _DEPLOY['custom_keep'] = (grpc1, grpc2)
  return _DEPLOY['custom']


class _Boom(Exception):
  pass


class _Hang(Exception):
  pass


def _bounded(fn, seconds=30.0):
  """Runs fn() in a daemon thread; a call that does not come back (a client polling an operation that never finishes) is
  reported as _Hang instead of stalling the checker until its time budget runs out."""
  import threading
  box = {}

  def run():
    try:
      box['r'] = fn()
    except BaseException as e:  # noqa
      box['e'] = e

  t = threading.Thread(target=run, daemon=True)
  t.start()
  t.join(seconds)
  if t.is_alive():
    raise _Hang('no answer within %ss' % seconds)
  if 'e' in box:
    raise box['e']
  return box['r']


def custom_policy(fail: int, count: int, t1: int) -> bool:
  """
  pre: 0 <= fail <= 5 and 1 <= count <= 2 and 0 <= t1 <= 2
  post: _
  """
  fail, count, t1 = conc(fail, 0, 5), conc(count, 1, 2), conc(t1, 0, 2)
  with NoTracing():
    import grpc
    _FAIL[0] = [None, ValueError('bad'), ZeroDivisionError('div'), _Boom('boom'), None, None][fail]
    # 4, 5: the policy FACTORY fails (unregistered algorithm name, missing dependency), not policy.suggest
    _FACTORY_FAIL[0] = [None, None, None, None, ValueError('Algorithm X is not registered.'), ImportError('no module')][fail]
    owner = 'c%d_%d' % (os.getpid(), next(_COUNTER))
    outs = []
    for name, service, ds in _custom_deployments():
      study = _study(service, ds, owner, [0, ACTIVE, REQUESTED][t1], 0, 1)
      try:
        got = sorted(_trial_obs(t.materialize()) for t in _bounded(lambda: study.suggest(count=count, client_id='w')))
        first = ('ok', got)
      except RuntimeError:
        first = ('exc', 'RuntimeError')                 # the documented client-level error for a failed operation
      except grpc.RpcError as e:  # noqa
        first = ('exc', 'RpcError:' + e.code().name)
      except Exception as e:  # noqa
        first = ('exc', type(e).__name__)
      # never wedged: every stored operation of the worker is finished; the next request terminates as well
      ops = ds.list_suggestion_operations(study.resource_name, 'w') if first is not None else []
      all_done = all(o.done for o in ops)
      _FAIL[0], saved = None, _FAIL[0]
      _FACTORY_FAIL[0], saved_f = None, _FACTORY_FAIL[0]
      try:
        again = len(_bounded(lambda: study.suggest(count=count, client_id='w')))
      except Exception as e:  # noqa
        again = type(e).__name__
      _FAIL[0], _FACTORY_FAIL[0] = saved, saved_f
      outs.append((first, all_done, again))
    _FAIL[0] = _FACTORY_FAIL[0] = None
    ok = outs[0] == outs[1] == outs[2] and all(o[1] for o in outs)
    if fail == 0:
      ok = ok and outs[0][0][0] == 'ok' and all(dict(t[3]).get('x') == 0.75 or t[2] is False for t in outs[0][0][1])
      ok = ok and len(outs[0][0][1]) == count
    else:
      need = count - (1 if t1 else 0)
      if need > 0:
        ok = ok and outs[0][0] == ('exc', 'RuntimeError')      # the failure is reported in every deployment
    ok = ok and outs[0][2] == count
  reach('custom_policy_fail%d' % fail)
  return finish(ok, (fail, count, t1), obs=None if ok else outs)


def endpoint_switch(first: int, second: int) -> bool:
  """
  pre: 0 <= first <= 2 and 0 <= second <= 2 and first != second
  post: _
  """
  first, second = conc(first, 0, 2), conc(second, 0, 2)
  with NoTracing():
    _deployments(False)
    grpc1, grpc2 = _DEPLOY['ram_keep']
    endpoints = [constants.NO_ENDPOINT, grpc1.endpoint, grpc2.endpoint]
    env = clients.environment_variables
    env.servicer_use_sql_ram()        # the documented test knob: the cached local servicer must not write vizier.db into the tree
    saved = env.server_endpoint
    sid = 'sw%d_%d' % (os.getpid(), next(_COUNTER))
    try:
      env.server_endpoint = endpoints[first]
      a = clients.Study.from_study_config(_config(), owner=sid, study_id='s')
      a.suggest(count=1, client_id='w')
      name = a.resource_name
      n_first = len(list(a.trials().get()))
      # the same program, now pointed at ANOTHER deployment: that service has never heard of the study
      env.server_endpoint = endpoints[second]
      try:
        clients.Study.from_resource_name(name)
        found = True
      except clients.ResourceNotFoundError:
        found = False
      b = clients.Study.from_study_config(_config(), owner=sid, study_id='s')
      n_second = len(list(b.trials().get()))
      ok = n_first == 1 and not found and n_second == 0
    finally:
      env.server_endpoint = saved
  reach('endpoint_switch')
  return finish(ok, (first, second))


def early_stop_agree(stop: bool, repeat: int, t1: int) -> bool:
  """
  pre: 1 <= repeat <= 3 and 1 <= t1 <= 2
  post: _
  """
  stop, repeat, t1 = cbool(stop), conc(repeat, 1, 3), conc(t1, 1, 2)
  with NoTracing():
    # a DETERMINISTIC early-stopping algorithm (always the same answer): then the answer is not advisory noise, and a client
    # asking repeatedly (the later questions are answered from the stored decision) sees the same in every deployment
    _STOP[0] = stop
    owner = 'e%d_%d' % (os.getpid(), next(_COUNTER))
    outs = []
    try:
      for name, service, ds in _custom_deployments():
        study = _study(service, ds, owner, [0, ACTIVE, STOPPING][t1], 0, 1)
        trial = study.get_trial(1)
        answers = []
        for _ in range(repeat):
          try:
            answers.append(_bounded(trial.check_early_stopping))
          except Exception as e:  # noqa
            answers.append(type(e).__name__)
        outs.append((answers, _trial_obs(trial.materialize())))
    finally:
      _STOP[0] = None
    ok = outs[0] == outs[1] == outs[2] and all(a == stop for a in outs[0][0])
  reach('early_stop_agree')
  return finish(ok, (stop, repeat, t1), obs=None if ok else outs)
