"""Shared pieces of the service-level S-step harnesses (C01, C02, C04, C05, C06, C07, C08, C12-service).

* build a VizierServicer whose datastore is filled DIRECTLY with an arbitrary (symbolically chosen) pre-state
* abstract(): the observable stored state (study state, trials: id/state/client/measurements/final/reason/parameters)
* RefModel: a small sequential reference model of the documented API, written from the docstrings of
  vizier_service.py / client_abc.py and the text of property C01 -- deliberately silent where those are silent
* classify(): error class of an RPC outcome
"""
import copy

import grpc
from vizier._src.service import custom_errors
from vizier._src.service import pythia_service_pb2
from vizier._src.service import study_pb2
from vizier._src.service import vizier_service
from vizier._src.service import vizier_service_pb2
from vizier.service import pyvizier as vz

OWNER = 'owners/o'
S = 'owners/o/studies/s'
# Study states
SU, SA, SI, SC = 0, 1, 2, 3
# Trial states
REQUESTED, ACTIVE, STOPPING, SUCCEEDED, INFEASIBLE = 1, 2, 3, 4, 5
ABSENT = 0
MUTABLE_STUDY = (SU, SA)


def study_config(algorithm='RANDOM_SEARCH', metrics=('m',)):
  sc = vz.StudyConfig(algorithm=algorithm)
  sc.search_space.root.add_float_param('x', 0.0, 1.0)
  for m in metrics:
    sc.metric_information.append(vz.MetricInformation(m, goal=vz.ObjectiveMetricGoal.MAXIMIZE))
  return sc


_SPEC = None


def spec():
  global _SPEC
  if _SPEC is None:
    _SPEC = study_config().to_proto()
  return _SPEC


class StubPythia:
  """Pythia stand-in: returns `deliver` suggestions (None = exactly what was asked); records the calls."""

  def __init__(self, deliver=None, fail=None, stateful=False):
    self.deliver, self.fail, self.calls, self.asked = deliver, fail, 0, []
    self.stateful = stateful       # like GRID_SEARCH: position persisted in study metadata, read from the request

  def Suggest(self, req):
    self.calls += 1
    self.asked.append(req.count)
    if self.fail is not None:
      raise self.fail
    n = req.count if self.deliver is None else self.deliver
    d = pythia_service_pb2.SuggestDecision()
    pos = 0
    if self.stateful:
      for kv in req.study_descriptor.config.metadata:
        if kv.key == 'position' and kv.ns == ':stub':
          pos = int(kv.value)
    for i in range(n):
      s = d.suggestions.add()
      p = s.parameters.add(parameter_id='x')
      p.value.number_value = 0.5 if not self.stateful else (pos + i + 1) / 64.0
    if self.stateful:
      u = d.metadata.add()
      u.metadatum.key, u.metadatum.ns, u.metadatum.value = 'position', ':stub', str(pos + n)
    return d

  def EarlyStop(self, req):
    self.calls += 1
    if self.fail is not None:
      raise self.fail
    d = pythia_service_pb2.EarlyStopDecisions()
    for tid in req.trial_ids:
      d.decisions.add(id=tid, should_stop=False, reason='keep going')
    return d


def trial_name(i, study=S):
  return '%s/trials/%d' % (study, i)


def make_trial(i, state, client='', n_meas=0, final=None, reason='', study=S, x=0.25):
  t = study_pb2.Trial(name=trial_name(i, study), id=str(i), state=state)
  if client:
    t.client_id = client
  t.parameters.add(parameter_id='x').value.number_value = x
  for k in range(n_meas):
    m = t.measurements.add()
    m.step_count = k + 1
    m.metrics.add(metric_id='m', value=float(k) + 0.5)
  if final is not None:
    t.final_measurement.metrics.add(metric_id='m', value=final)
  if reason:
    t.infeasible_reason = reason
  return t


# ---- harness clock: vizier_service reads the wall clock in two places (operation timestamps, recycle period) ------
CLOCK = [1000]        # seconds since the epoch; harnesses may advance it
import datetime as _dt  # noqa: E402
from google.protobuf import timestamp_pb2 as _ts  # noqa: E402


class _ClockDatetime(_dt.datetime):

  @classmethod
  def utcnow(cls):
    return _dt.datetime(1970, 1, 1) + _dt.timedelta(seconds=CLOCK[0])

  @classmethod
  def now(cls, tz=None):
    # local wall-clock time of a process running 8 hours west of UTC (the service must not depend on the process time zone)
    if tz is None:
      return cls.utcnow() - _dt.timedelta(hours=8)
    return (cls.utcnow().replace(tzinfo=_dt.timezone.utc)).astimezone(tz)


class _ClockModule:
  datetime = _ClockDatetime
  timedelta = _dt.timedelta


def _clock_timestamp():
  return _ts.Timestamp(seconds=CLOCK[0])


vizier_service.datetime = _ClockModule
vizier_service._get_current_time = _clock_timestamp
STUBS = ['vizier_service.datetime.utcnow / _get_current_time read the harness clock svc.CLOCK (constant unless advanced); '
         'datetime.now() = local time of a process 8 h west of UTC']


def new_servicer(pythia=None, database_url=None, recycle_s=60):
  CLOCK[0] = 1000
  return vizier_service.VizierServicer(database_url=database_url, default_pythia_service=pythia or StubPythia(),
                                       early_stop_recycle_period=_dt.timedelta(seconds=recycle_s))


def add_study(servicer, state=SA, name=S, display='s'):
  servicer.datastore.create_study(study_pb2.Study(name=name, display_name=display, study_spec=spec(), state=state))


def _kv_value(kv):
  """String value, or a printable form of a packed proto value."""
  if kv.HasField('proto'):
    return 'proto:%s:%s' % (kv.proto.type_url, kv.proto.value.hex())
  return kv.value


def abstract_trial(t):
  return {
      'id': int(t.id), 'state': t.state, 'client': t.client_id,
      'meas': [[(m.metric_id, m.value) for m in ms.metrics] for ms in t.measurements],
      'final': [(m.metric_id, m.value) for m in t.final_measurement.metrics] if t.HasField('final_measurement') else None,
      'reason': t.infeasible_reason,
      'params': [(p.parameter_id, p.value.number_value) for p in t.parameters],
      'md': sorted((kv.ns, kv.key, _kv_value(kv)) for kv in t.metadata),
  }


def abstract(servicer, study=S):
  """Observable stored state of one study; None if the study does not exist."""
  ds = servicer.datastore
  try:
    st = ds.load_study(study)
  except custom_errors.NotFoundError:
    return None
  trials = {int(t.id): abstract_trial(t) for t in ds.list_trials(study)}
  return {'state': st.state, 'trials': trials,
          'md': sorted((kv.ns, kv.key, _kv_value(kv)) for kv in st.study_spec.metadata)}


def snapshot(servicer, study=S):
  """Exact stored bytes of the study and its trials (for "unchanged" checks, timestamps included)."""
  ds = servicer.datastore
  try:
    st = ds.load_study(study)
  except custom_errors.NotFoundError:
    return None
  return (st.SerializeToString(deterministic=True),
          tuple(t.SerializeToString(deterministic=True) for t in ds.list_trials(study)))


# ---- outcome classes -------------------------------------------------------------------------------------------
OK, NOT_FOUND, FAILED_PRECONDITION, ALREADY_EXISTS, OTHER_ERROR = 'OK', 'NOT_FOUND', 'FAILED_PRECONDITION', 'ALREADY_EXISTS', 'ERROR'


def classify(exc):
  """Error class a caller can observe: grpc status code of a LocalRpcError, else the documented custom error class."""
  if exc is None:
    return OK
  if isinstance(exc, grpc.RpcError) and hasattr(exc, 'code'):
    c = exc.code()
    if c == grpc.StatusCode.NOT_FOUND:
      return NOT_FOUND
    if c == grpc.StatusCode.FAILED_PRECONDITION:
      return FAILED_PRECONDITION
    if c == grpc.StatusCode.ALREADY_EXISTS:
      return ALREADY_EXISTS
    return OTHER_ERROR
  if isinstance(exc, custom_errors.NotFoundError):
    return NOT_FOUND
  if isinstance(exc, (custom_errors.ImmutableStudyError, custom_errors.ImmutableTrialError)):
    return FAILED_PRECONDITION
  if isinstance(exc, custom_errors.AlreadyExistsError):
    return ALREADY_EXISTS
  return OTHER_ERROR


def call(fn, request):
  """Returns (response, exception)."""
  try:
    return fn(request), None
  except Exception as e:  # noqa  (CrossHair control-flow exceptions are BaseException)
    return None, e


# ---- reference model -------------------------------------------------------------------------------------------
class RefModel:
  """Sequential reference model over plain dicts.  self.study is None (missing) or
  {'state': int, 'trials': {id: trial dict as abstract_trial}}.

  Each method returns (outcome_class, response) where response is the abstract trial / None and mutates self only on OK.
  Where the documentation is silent the method returns outcome ANY (None): the caller then only requires
  "error => unchanged" and the generic lifecycle invariants.
  """

  def __init__(self, study):
    self.study = copy.deepcopy(study)

  # helpers
  def _study_gate(self, mutating=True):
    if self.study is None:
      return NOT_FOUND
    if mutating and self.study['state'] not in MUTABLE_STUDY:
      return FAILED_PRECONDITION
    return None

  def _trial(self, tid):
    return self.study['trials'].get(tid)

  def get_trial(self, tid):
    g = self._study_gate(mutating=False)
    if g:
      return g, None
    t = self._trial(tid)
    if t is None:
      return NOT_FOUND, None
    return OK, copy.deepcopy(t)

  def list_trials(self):
    g = self._study_gate(mutating=False)
    if g:
      return g, None
    return OK, [copy.deepcopy(self.study['trials'][k]) for k in sorted(self.study['trials'])]

  def set_study_state(self, state):
    if self.study is None:
      return NOT_FOUND, None
    self.study['state'] = state
    return OK, state

  def delete_study(self):
    if self.study is None:
      return NOT_FOUND, None
    self.study = None
    return OK, None

  def create_trial(self, given_state, final, x=0.25):
    g = self._study_gate()
    if g:
      return g, None
    tid = max(self.study['trials'] or [0]) + 1
    st = SUCCEEDED if given_state == SUCCEEDED else REQUESTED
    t = {'id': tid, 'state': st, 'client': '', 'meas': [], 'final': [('m', final)] if final is not None else None,
         'reason': '', 'params': [('x', x)], 'md': []}
    self.study['trials'][tid] = t
    return OK, copy.deepcopy(t)

  def add_measurement(self, tid, value):
    g = self._study_gate()
    if g:
      return g, None
    t = self._trial(tid)
    if t is None:
      return NOT_FOUND, None
    if t['state'] == INFEASIBLE:
      return None, None          # silent in the docs: "unchanged + returned" or an error are both accepted
    if t['state'] not in (ACTIVE, STOPPING):
      return FAILED_PRECONDITION, None
    t['meas'].append([('m', value)])
    return OK, copy.deepcopy(t)

  def complete(self, tid, final, infeasible, reason=''):
    g = self._study_gate()
    if g:
      return g, None
    t = self._trial(tid)
    if t is None:
      return NOT_FOUND, None
    if t['state'] not in (ACTIVE, STOPPING):
      return FAILED_PRECONDITION, None
    if final is not None:
      t['final'] = [('m', final)]
    elif not infeasible:
      if not t['meas']:
        return OTHER_ERROR, None   # nothing to complete with: must fail (class not documented) and change nothing
      t['final'] = copy.deepcopy(t['meas'][-1])
    if infeasible:
      t['state'] = INFEASIBLE
      t['reason'] = reason
    else:
      t['state'] = SUCCEEDED
    return OK, copy.deepcopy(t)

  def stop(self, tid):
    g = self._study_gate()
    if g:
      return g, None
    t = self._trial(tid)
    if t is None:
      return NOT_FOUND, None
    if t['state'] == ACTIVE:
      t['state'] = STOPPING
      return OK, copy.deepcopy(t)
    if t['state'] in (STOPPING, SUCCEEDED):
      return OK, copy.deepcopy(t)      # documented no-op
    return FAILED_PRECONDITION, None

  def delete_trial(self, tid):
    g = self._study_gate()
    if g:
      return g, None
    if self._trial(tid) is None:
      return NOT_FOUND, None
    del self.study['trials'][tid]
    return OK, None


LEGAL = {  # legal trial state transitions (C01)
    REQUESTED: (REQUESTED, ACTIVE),
    ACTIVE: (ACTIVE, STOPPING, SUCCEEDED, INFEASIBLE),
    STOPPING: (STOPPING, SUCCEEDED, INFEASIBLE),
    SUCCEEDED: (SUCCEEDED,),
    INFEASIBLE: (INFEASIBLE,),
}


def lifecycle_ok(before, after):
  """Generic C01 invariants between two abstract study states (same study, not deleted in between)."""
  if before is None or after is None:
    return True
  for tid, a in after['trials'].items():
    b = before['trials'].get(tid)
    if a['state'] not in LEGAL:
      return False
    if a['state'] == SUCCEEDED and a['final'] is None:
      return False
    if b is None:
      continue
    if a['state'] not in LEGAL.get(b['state'], ()):
      return False
    if a['params'] != b['params']:
      return False
    if b['state'] in (SUCCEEDED, INFEASIBLE):
      if (a['state'], a['meas'], a['final'], a['reason']) != (b['state'], b['meas'], b['final'], b['reason']):
        return False
  ids = list(after['trials'])
  return len(ids) == len(set(ids)) and all(i > 0 for i in ids)
