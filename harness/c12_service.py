"""C12 at the service level: over a whole study history every completed trial is given to the hosted algorithm exactly
once, and each update contains exactly the trials ACTIVE at that moment.

Real VizierServicer (RAM datastore) + real PythiaServicer + real ServicePolicySupporter +
PartiallySerializableDesignerPolicy REBUILT FOR EVERY REQUEST (the service's behaviour) around a recording designer whose
record (the ids it has been given) is persisted in study metadata like any algorithm state.  The history -- a sequence of
environment actions (complete feasible / infeasible, delete, add an already completed trial, request a trial, suggest by a
second worker) between suggest calls -- is chosen by the solver (bounded length), executed outside tracing.

Encoded (real code): VizierServicer.SuggestTrials/CompleteTrial/DeleteTrial/CreateTrial, PythiaServicer.Suggest,
ServicePolicySupporter.GetTrials, TrialFilter, designer_policy._SerializableDesignerPolicyBase, trial_caches, TrialConverter.
"""
import json

from engine.hsupport import NoTracing, conc, finish, known, reach
from harness import svc
from harness.svc import S
from vizier import pyvizier as vz
from vizier._src.algorithms.core import abstractions as vza
from vizier._src.algorithms.policies import designer_policy as dp
from vizier._src.service import pythia_service
from vizier._src.service import study_pb2
from vizier._src.service import vizier_service
from vizier._src.service import vizier_service_pb2 as vs
from vizier.interfaces import serializable

KF_REUSE = 'C12-trial-id-reused-after-deleting-the-newest-trial'
ASSUMPTIONS = [
    'designer = recording stub persisted through the real metadata path (MetadataDelta -> UpdateMetadata -> StudyConfig)',
    'histories: up to 3 environment actions between 3 suggest calls, ids <= 6',
]
LOG = []       # (kind, completed ids, active ids) of every update call, in order (process-local, reset per history)


class RecDesigner(vza.PartiallySerializableDesigner):

  def __init__(self, problem=None, seed=None):
    self.seen = []

  def update(self, completed, all_active):
    c = sorted(t.id for t in completed.trials)
    a = sorted(t.id for t in all_active.trials)
    LOG.append((c, a))
    self.seen = self.seen + c

  def suggest(self, count=None):
    return [vz.TrialSuggestion({'x': 0.5}) for _ in range(count or 1)]

  def dump(self):
    md = vz.Metadata()
    md['seen'] = json.dumps(self.seen)
    return md

  def load(self, md):
    if 'seen' not in md:
      raise serializable.HarmlessDecodeError('no state')
    self.seen = json.loads(md['seen'])


def _factory(problem_statement, algorithm, policy_supporter, study_name):
  return dp.PartiallySerializableDesignerPolicy(
      problem_statement, policy_supporter, lambda p, seed=None: RecDesigner(p))


_KEPT = {}


def _factory_kept(problem_statement, algorithm, policy_supporter, study_name):
  """A policy factory that caches the policy (with the supporter it was built on) per study, as a long-lived Pythia
  process may do (vizier/_src/pyglove/oss_vizier.py does): the policy object survives across requests."""
  if study_name not in _KEPT:
    _KEPT[study_name] = _factory(problem_statement, algorithm, policy_supporter, study_name)
  return _KEPT[study_name]


def _suggest(sv, client, n):
  op = sv.SuggestTrials(vs.SuggestTrialsRequest(parent=S, suggestion_count=n, client_id=client))
  assert op.done and not op.HasField('error'), op
  return [int(t.id) for t in vs.SuggestTrialsResponse.FromString(op.response.value).trials]


ACTIONS = ['complete_newest', 'complete_oldest_active', 'infeasible_newest', 'delete_newest', 'delete_oldest',
           'add_completed', 'request', 'suggest_other_worker', 'nothing', 'delete_three_newest',
           'infeasible_no_reason', 'add_nine_completed']


def _act(sv, kind, model):
  """Applies one environment action to the service and to the model (dict id -> 'active'|'completed'|'requested')."""
  ids_active = sorted(i for i, s in model['trials'].items() if s == 'active')
  ids_all = sorted(model['trials'])
  if kind == 'add_nine_completed':        # ids reach two digits
    for _ in range(9):
      _act(sv, 'add_completed', model)
    return
  if kind in ('complete_newest', 'complete_oldest_active', 'infeasible_newest', 'infeasible_no_reason'):
    if not ids_active:
      return
    tid = ids_active[0] if kind == 'complete_oldest_active' else ids_active[-1]
    req = vs.CompleteTrialRequest(name=svc.trial_name(tid))
    if kind in ('infeasible_newest', 'infeasible_no_reason'):
      req.trial_infeasible = True
      req.infeasible_reason = 'bad' if kind == 'infeasible_newest' else ''
    else:
      req.final_measurement.metrics.add(metric_id='m', value=1.0)
    sv.CompleteTrial(req)
    model['trials'][tid] = 'completed'
    model['completed_instances'].append((tid, model['gen'][tid]))
    model['completed_at'][(tid, model['gen'][tid])] = len(LOG)
  elif kind == 'delete_three_newest':
    for _ in range(3):
      _act(sv, 'delete_newest', model)
  elif kind in ('delete_newest', 'delete_oldest'):
    if not ids_all:
      return
    tid = ids_all[-1] if kind == 'delete_newest' else ids_all[0]
    sv.DeleteTrial(vs.DeleteTrialRequest(name=svc.trial_name(tid)))
    del model['trials'][tid]
  elif kind == 'add_completed':
    t = study_pb2.Trial(state=svc.SUCCEEDED)
    t.parameters.add(parameter_id='x').value.number_value = 0.75
    t.final_measurement.metrics.add(metric_id='m', value=2.0)
    r = sv.CreateTrial(vs.CreateTrialRequest(parent=S, trial=t))
    _new(model, int(r.id), 'completed')
    model['completed_instances'].append((int(r.id), model['gen'][int(r.id)]))
    model['completed_at'][(int(r.id), model['gen'][int(r.id)])] = len(LOG)
  elif kind == 'request':
    t = study_pb2.Trial()
    t.parameters.add(parameter_id='x').value.number_value = 0.25
    r = sv.CreateTrial(vs.CreateTrialRequest(parent=S, trial=t))
    _new(model, int(r.id), 'requested')
  elif kind == 'suggest_other_worker':
    _do_suggest(sv, 'v', 1, model)


# quick tier: first two actions from complete_newest, add_completed, delete_newest, request, nothing, infeasible without a
# reason, nine completed trials added at once; last two from delete_three_newest, add_completed, complete_newest,
# delete_newest, nothing, delete_oldest
_Q1 = [0, 5, 3, 6, 8, 10, 11]
_Q2 = [9, 5, 0, 3, 8, 4]


def history_quick(a1: int, a2: int, a3: int, a4: int, n1: int, n2: int) -> bool:
  """
  pre: 0 <= a1 <= 6 and 0 <= a2 <= 6 and 0 <= a3 <= 5 and 0 <= a4 <= 5 and 1 <= n1 <= 2 and 1 <= n2 <= 2
  post: _
  """
  import os
  a1 = conc(a1, 0, 6)
  sl = os.environ.get('VERIF_SLICE')
  if sl is not None and a1 != int(sl):
    return True
  a2, a3, a4, n1, n2 = conc(a2, 0, 6), conc(a3, 0, 5), conc(a4, 0, 5), conc(n1, 1, 2), conc(n2, 1, 2)
  return _history(_Q1[a1], _Q1[a2], _Q2[a3], _Q2[a4], n1, n2, (a1, a2, a3, a4, n1, n2))


def _new(model, tid, state):
  model['gen'][tid] = model['gen'].get(tid, 0) + 1       # how many different trials have carried this id
  model['trials'][tid] = state


def _do_suggest(sv, client, n, model):
  before_log = len(LOG)
  active_before = sorted(i for i, s in model['trials'].items() if s == 'active')
  got = _suggest(sv, client, n)
  for tid in got:
    if tid not in model['trials']:
      _new(model, tid, 'active')
    elif model['trials'][tid] == 'requested':
      model['trials'][tid] = 'active'
      active_before = sorted(active_before + [tid])      # queued trials are handed out BEFORE the algorithm is consulted
  for tid in [int(t.id) for t in sv.datastore.list_trials(S)]:
    if tid not in model['trials']:
      _new(model, tid, 'requested')                      # surplus queued by the service
  # an update happened iff the algorithm was consulted; it must have seen exactly the ACTIVE trials of that moment
  ok = True
  for c, a in LOG[before_log:]:
    ok = ok and a == active_before
    for tid in c:
      model['delivered'].append((tid, model['gen'].get(tid, 0)))
  return ok


def history(a1: int, a2: int, a3: int, a4: int, n1: int, n2: int) -> bool:
  """
  pre: 0 <= a1 <= 11 and 0 <= a2 <= 11 and 0 <= a3 <= 11 and 0 <= a4 <= 11 and 1 <= n1 <= 2 and 1 <= n2 <= 2
  post: _
  """
  import os
  a1 = conc(a1, 0, 11)
  sl = os.environ.get('VERIF_SLICE')
  if sl is not None and a1 != int(sl):
    return True
  a2, a3, a4, n1, n2 = conc(a2, 0, 11), conc(a3, 0, 11), conc(a4, 0, 11), conc(n1, 1, 2), conc(n2, 1, 2)
  return _history(a1, a2, a3, a4, n1, n2, (a1, a2, a3, a4, n1, n2))


def _history(a1, a2, a3, a4, n1, n2, args):
  with NoTracing():
    del LOG[:]
    sv = vizier_service.VizierServicer(database_url=None)
    import os
    _KEPT.clear()
    keep = bool(os.environ.get('VERIF_C12_KEEP'))
    sv.default_pythia_service = pythia_service.PythiaServicer(sv, policy_factory=_factory_kept if keep else _factory)
    svc.add_study(sv)
    model = {'trials': {}, 'gen': {}, 'delivered': [], 'completed_instances': [], 'completed_at': {}}
    ok = _do_suggest(sv, 'w', n1, model)
    _act(sv, ACTIONS[a1], model)
    _act(sv, ACTIONS[a2], model)
    ok = _do_suggest(sv, 'w', n1 + n2, model) and ok
    _act(sv, ACTIONS[a3], model)
    _act(sv, ACTIONS[a4], model)
    ok = _do_suggest(sv, 'w', n1 + n2 + 2, model) and ok          # asks for more than it holds: the algorithm is consulted
    reused = any(g > 1 for g in model['gen'].values())
    if reused and known(KF_REUSE):
      reach('known_reuse')
      return finish(True, args, obs='id reuse (known finding)')
    # every trial instance that was completed (and still existed when the algorithm was next consulted) was delivered
    # exactly once; nothing was delivered twice
    delivered = model['delivered']
    ok = ok and len(delivered) == len(set(delivered))
    # (only trials completed BEFORE the algorithm was last consulted can have been delivered yet)
    still_there = [(tid, g) for tid, g in model['completed_instances']
                   if model['trials'].get(tid) == 'completed' and model['gen'][tid] == g
                   and model['completed_at'][(tid, g)] < len(LOG)]
    for inst in still_there:
      ok = ok and delivered.count(inst) == 1
    for inst in delivered:
      ok = ok and inst in model['completed_instances']
  reach('history')
  return finish(ok, args, obs=None if ok else [ACTIONS[a1], ACTIONS[a2], ACTIONS[a3], ACTIONS[a4], model['delivered'],
                                                                 model['completed_instances'], LOG])
