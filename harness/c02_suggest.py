"""C02: SuggestTrials hands out exactly N trials, own ACTIVE first, then REQUESTED, then new; sticky; fresh ids.

Encoded (real code): VizierServicer.SuggestTrials / GetOperation, NestedDictRAMDataStore.*, SuggestConverter,
TrialConverter.to_protos, StudyConfig.from_proto.  Pythia is a stub that delivers p suggestions (p symbolic relative to
the number asked: under / exact / over delivery).
"""
from engine.hsupport import NoTracing, conc, finish, reach
from harness import svc
from harness.svc import ACTIVE, REQUESTED, S, SUCCEEDED
from vizier._src.service import vizier_service_pb2 as vs

ASSUMPTIONS = [
    'Pythia replaced by a stub delivering p suggestions; p = asked + offset, offset in -2..+2',
    'pre-state: a own ACTIVE, b other-worker ACTIVE, r REQUESTED, c completed trials, ids in that creation order or '
    'interleaved (order flag)',
]


def _pre(a, b, r, c, order, deliver_offset, gap=0):
  """Returns servicer, pythia stub, list of ids by role."""
  with NoTracing():
    py = svc.StubPythia()
    sv = svc.new_servicer(pythia=py)
    svc.add_study(sv)
    roles = ['own'] * a + ['other'] * b + ['req'] * r + ['done'] * c
    if order == 1:
      roles = list(reversed(roles))
    elif order == 2:
      roles = roles[1::2] + roles[0::2]
    ids = {'own': [], 'other': [], 'req': [], 'done': []}
    tid = 0
    for i, role in enumerate(roles):
      tid = i + 1 if gap == 0 or (gap == 1 and i == 0) else i + 3
      if role == 'own':
        t = svc.make_trial(tid, ACTIVE, client='w')
      elif role == 'other':
        t = svc.make_trial(tid, ACTIVE, client='v')
      elif role == 'req':
        t = svc.make_trial(tid, REQUESTED)
      else:
        t = svc.make_trial(tid, SUCCEEDED, client='v', final=1.0)
      sv.datastore.create_trial(t)
      ids[role].append(tid)
    py.offset = deliver_offset

    def suggest(req, _orig=py.Suggest):
      py.deliver = max(0, req.count + py.offset)
      return _orig(req)

    py.Suggest = suggest
  return sv, py, ids, tid if roles else 0


def _check(n, a, b, r, c, order, off, args, gap=0):
  sv, py, ids, max_id = _pre(a, b, r, c, order, off, gap)
  before = svc.abstract(sv)
  need = max(0, n - a - r)
  delivered = max(0, need + off) if need > 0 else 0
  op, exc = svc.call(sv.SuggestTrials, vs.SuggestTrialsRequest(parent=S, suggestion_count=n, client_id='w'))
  reach('need%d_off%d' % (min(need, 1), off) if need else 'noneed')
  if exc is not None:
    return finish(False, args, obs='raised %s' % type(exc).__name__)
  ok = op.done and not op.HasField('error')
  if not ok:
    return finish(False, args, obs='op not done / error')
  resp = vs.SuggestTrialsResponse.FromString(op.response.value)
  after = svc.abstract(sv)
  got_ids = [int(t.id) for t in resp.trials]
  expect_count = min(n, a + r + delivered)
  ok = ok and len(got_ids) == expect_count and len(set(got_ids)) == len(got_ids)
  ok = ok and all(t.state == ACTIVE and t.client_id == 'w' for t in resp.trials)
  # stored copies agree with the response
  ok = ok and all(after['trials'][i]['state'] == ACTIVE and after['trials'][i]['client'] == 'w' for i in got_ids)
  # order of sources: own ACTIVE first, then formerly REQUESTED, then new
  n_own = min(n, a)
  ok = ok and got_ids[:n_own] == ids['own'][:n_own]
  n_req = min(max(0, n - a), r)
  ok = ok and all(i in ids['req'] for i in got_ids[n_own:n_own + n_req])
  new_in_resp = got_ids[n_own + n_req:]
  ok = ok and all(i > max_id for i in new_in_resp)
  # ids of created trials: fresh, increasing, all larger than every pre-existing id
  created = sorted(i for i in after['trials'] if i not in before['trials'])
  ok = ok and created == list(range(max_id + 1, max_id + 1 + delivered))
  # surplus queued as REQUESTED, not dropped
  surplus = [i for i in created if i not in got_ids]
  ok = ok and len(surplus) == max(0, delivered - need)
  ok = ok and all(after['trials'][i]['state'] == REQUESTED and after['trials'][i]['client'] == '' for i in surplus)
  # nobody else's trial changed; completed trials untouched; unassigned REQUESTED stay REQUESTED
  for i, tb in before['trials'].items():
    ta = after['trials'].get(i)
    if ta is None:
      ok = False
    elif i not in got_ids:
      ok = ok and ta == tb
    else:
      ok = ok and ta['params'] == tb['params'] and ta['meas'] == tb['meas']
  # Pythia consulted iff needed, asked for exactly the missing amount
  ok = ok and py.calls == (1 if need > 0 else 0) and (py.asked == ([need] if need > 0 else []))
  if not ok:
    return finish(False, args, obs='first call')
  # a completion attempt that the service REJECTS (nothing to complete the trial with) must not take the trial away from
  # the worker: afterwards the same request still returns it
  if got_ids and not after['trials'][got_ids[0]]['meas']:
    _, exc_c = svc.call(sv.CompleteTrial, vs.CompleteTrialRequest(name=svc.trial_name(got_ids[0])))
    if exc_c is None or svc.abstract(sv) != after:
      return finish(False, args, obs='rejected completion changed the stored trial')
  # sticky: the same call again returns the same trials (first N own ACTIVE) and creates nothing
  calls_before = py.calls
  op2, exc2 = svc.call(sv.SuggestTrials, vs.SuggestTrialsRequest(parent=S, suggestion_count=n, client_id='w'))
  if exc2 is not None or not op2.done or op2.HasField('error'):
    return finish(False, args, obs='second call failed')
  resp2 = vs.SuggestTrialsResponse.FromString(op2.response.value)
  after2 = svc.abstract(sv)
  got2 = [int(t.id) for t in resp2.trials]
  if expect_count == n:
    ok = ok and sorted(got2) == sorted(got_ids) and after2 == after and py.calls == calls_before
  ok = ok and op2.name != op.name                      # a finished operation is not reused
  got_op, exc3 = svc.call(sv.GetOperation, __import__('google.longrunning.operations_pb2', fromlist=['x']).GetOperationRequest(name=op.name))
  ok = ok and exc3 is None and got_op.done and got_op.response.value == op.response.value
  return finish(ok, args, obs='ok' if ok else 'sticky')


def _step(n, a, b, r, c, order, off):
  n, a, b, r, c = conc(n, 1, 3), conc(a, 0, 2), conc(b, 0, 1), conc(r, 0, 2), conc(c, 0, 1)
  off = conc(off, -2, 2)
  return _check(n, a, b, r, c, order, off, (n, a, b, r, c, off))


def suggest_step_order0(n: int, a: int, b: int, r: int, c: int, off: int) -> bool:
  """
  pre: 1 <= n <= 3 and 0 <= a <= 2 and 0 <= b <= 1 and 0 <= r <= 2 and 0 <= c <= 1 and -2 <= off <= 2
  post: _
  """
  return _step(n, a, b, r, c, 0, off)


def suggest_step_order1(n: int, a: int, b: int, r: int, c: int, off: int) -> bool:
  """
  pre: 1 <= n <= 3 and 0 <= a <= 2 and 0 <= b <= 1 and 0 <= r <= 2 and 0 <= c <= 1 and -2 <= off <= 2
  post: _
  """
  return _step(n, a, b, r, c, 1, off)


def suggest_step_order2(n: int, a: int, b: int, r: int, c: int, off: int) -> bool:
  """
  pre: 1 <= n <= 3 and 0 <= a <= 2 and 0 <= b <= 1 and 0 <= r <= 2 and 0 <= c <= 1 and -2 <= off <= 2
  post: _
  """
  return _step(n, a, b, r, c, 2, off)


def suggest_step_gaps(n: int, a: int, r: int, c: int, off: int, gap: int) -> bool:
  """
  pre: 1 <= n <= 3 and 0 <= a <= 2 and 0 <= r <= 1 and 0 <= c <= 1 and 0 <= off <= 1 and 1 <= gap <= 2
  post: _
  """
  n, a, r, c, off, gap = conc(n, 1, 3), conc(a, 0, 2), conc(r, 0, 1), conc(c, 0, 1), conc(off, 0, 1), conc(gap, 1, 2)
  # trial ids with holes, as left by earlier DeleteTrial calls: gap=1 -> ids 1,4,5,..; gap=2 -> ids 3,4,5,..
  return _check(n, a, 1, r, c, 0, off, (n, a, r, c, off, gap), gap=gap)


def suggest_step_big(n: int, a: int, r: int, off: int) -> bool:
  """
  pre: 1 <= n <= 6 and 0 <= a <= 3 and 0 <= r <= 3 and -1 <= off <= 3
  post: _
  """
  n, a, r, off = conc(n, 1, 6), conc(a, 0, 3), conc(r, 0, 3), conc(off, -1, 3)
  return _check(n, a, 1, r, 1, 2, off, (n, a, r, off))
