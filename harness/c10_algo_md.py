"""C10 (algorithm-issued metadata): a MetadataDelta returned by the hosted algorithm through SuggestTrials /
CheckTrialEarlyStoppingState is stored exactly (last writer wins per (namespace, key), study level and trial level), and
never disturbs user entries, on both datastores.

Real VizierServicer + real PythiaServicer + custom policy emitting a solver-chosen delta (study-only / trial-only / mixed;
namespaces incl. the root namespace a user writes to, a reserved algorithm namespace, a multi-component one and one whose
encoded form collides textually with a root-namespace key containing a colon).
"""
from engine.hsupport import NoTracing, cbool, conc, finish, reach
from harness import svc
from harness.svc import ACTIVE, S
from vizier import pythia
from vizier import pyvizier as vz
from vizier._src.service import pythia_service
from vizier._src.service import vizier_service
from vizier._src.service import vizier_service_pb2 as vs

UNBLOCK = ['sqlite3.connect', 'sqlite3.connect/handle']
ASSUMPTIONS = ['the algorithm is a custom policy emitting a MetadataDelta chosen by the solver; 2 rounds of writes']
_NS = [(), ('algo',), ('algo', 'sub'), ('cache',)]
_KEYS = ['k', 'size', 'cache:size']
_PLAN = []


class _MdPolicy(pythia.Policy):

  def suggest(self, request):
    delta = vz.MetadataDelta()
    plan = _PLAN.pop(0)
    empty = bool(plan) and plan[0] == 'NO-SUGGESTIONS'
    for target, ns, key, value in (plan[1:] if empty else plan):
      md = delta.on_study if target == 0 else delta.on_trials[target]
      md.abs_ns(vz.Namespace(ns))[key] = value
    n = 0 if empty else request.count       # an exhausted algorithm still reports its state
    return pythia.SuggestDecision([vz.TrialSuggestion({'x': 0.5}) for _ in range(n)], metadata=delta)

  def early_stop(self, request):
    return pythia.EarlyStopDecisions()


def _md_dict(a):
  out = {0: dict(((ns, k), v) for ns, k, v in a['md'])}
  for tid, t in a['trials'].items():
    out[tid] = dict(((ns, k), v) for ns, k, v in t['md'])
  return out


def algo_delta_ram(t1: int, n1: int, k1: int, t2: int, n2: int, k2: int) -> bool:
  """
  pre: 0 <= t1 <= 2 and 0 <= n1 <= 3 and 0 <= k1 <= 2 and 0 <= t2 <= 2 and 0 <= n2 <= 3 and 0 <= k2 <= 2
  post: _
  """
  return _algo_delta(False, t1, n1, k1, t2, n2, k2, (t1, n1, k1, t2, n2, k2))


def algo_delta_sql(t1: int, n1: int, k1: int, t2: int, n2: int, k2: int) -> bool:
  """
  pre: 0 <= t1 <= 2 and 0 <= n1 <= 3 and 0 <= k1 <= 2 and 0 <= t2 <= 2 and 0 <= n2 <= 3 and 0 <= k2 <= 2
  post: _
  """
  return _algo_delta(True, t1, n1, k1, t2, n2, k2, (t1, n1, k1, t2, n2, k2))


def _algo_delta(sql, t1, n1, k1, t2, n2, k2, args):
  w = [(conc(t1, 0, 2), conc(n1, 0, 3), conc(k1, 0, 2)), (conc(t2, 0, 2), conc(n2, 0, 3), conc(k2, 0, 2))]
  w.append(w[0])        # the second round overwrites the first entry of the first round
  with NoTracing():
    sv = vizier_service.VizierServicer(database_url='sqlite:///:memory:' if sql else None)
    sv.default_pythia_service = pythia_service.PythiaServicer(
        sv, policy_factory=lambda problem, algorithm, supporter, name: _MdPolicy())
    svc.add_study(sv)
    sv.datastore.create_trial(svc.make_trial(1, ACTIVE, client='w'))
    sv.datastore.create_trial(svc.make_trial(2, ACTIVE, client='v'))
    # user entries (root namespace) on the study and on trial 1, written through the public RPC
    req = vs.UpdateMetadataRequest(name=S)
    for tid in (None, '1'):
      for key in _KEYS:
        d = req.delta.add()
        if tid:
          d.trial_id = tid
        d.metadatum.key, d.metadatum.value = key, 'user'
    assert not sv.UpdateMetadata(req).error_details
    want = _md_dict(svc.abstract(sv))
    # round 1: the first two writes in one delta; round 2: the third (possibly overwriting)
    rounds = [[w[0], w[1]], [w[2]]]
    del _PLAN[:]
    ok = True
    for r, writes in enumerate(rounds):
      plan = []
      for i, (target, ns, key) in enumerate(writes):
        value = 'algo-r%d-%d' % (r, i)
        plan.append((target, _NS[ns], _KEYS[key], value))
        want[target][(vz.Namespace(_NS[ns]).encode(), _KEYS[key])] = value
      _PLAN.append(plan)
      # worker 'n<r>' holds nothing: the algorithm is consulted
      op = sv.SuggestTrials(vs.SuggestTrialsRequest(parent=S, suggestion_count=1, client_id='n%d' % r))
      ok = ok and op.done and not op.HasField('error')
      got = _md_dict(svc.abstract(sv))
      for target in (0, 1, 2):
        ok = ok and got[target] == want[target]
    # round 3: the algorithm has nothing to suggest but still sends a delta (its updated state): stored all the same
    if ok:
      target, ns, key = w[1]
      _PLAN.append(['NO-SUGGESTIONS', (target, _NS[ns], _KEYS[key], 'algo-exhausted'), (0, ('algo',), 'exhausted', 'yes')])
      want[target][(vz.Namespace(_NS[ns]).encode(), _KEYS[key])] = 'algo-exhausted'
      want[0][(vz.Namespace(('algo',)).encode(), 'exhausted')] = 'yes'
      op = sv.SuggestTrials(vs.SuggestTrialsRequest(parent=S, suggestion_count=1, client_id='n9'))
      ok = ok and op.done
      got = _md_dict(svc.abstract(sv))
      for target in (0, 1, 2):
        ok = ok and got[target] == want[target]
    # entries the algorithm did not write this run are untouched (user entries in particular)
  reach('algo_delta')
  return finish(ok, args)
