"""C02 with an UNBOUNDED suggestion count: SuggestTrials on the symproto back end with `suggestion_count` a symbolic
integer (any N >= 1), so the comparisons `len(active) >= N`, `N > len(output)` in the real servicer are decided by z3 for all
N at once.  The numbers of own ACTIVE / REQUESTED trials and of delivered suggestions are small and concretised.
"""
from engine.hsupport import conc, finish, reach
from env import bootstrap
from harness import svc
from harness.svc import ACTIVE, REQUESTED, S
from vizier._src.service import pythia_service_pb2
from vizier._src.service import vizier_service_pb2 as vs

bootstrap.post_import()
ASSUMPTIONS = ['protobuf runtime = env/symproto; suggestion_count any integer >= 1 (symbolic); own 0..2, REQUESTED 0..2, '
               'Pythia delivers p in 0..3 suggestions whatever it is asked']


class _Pythia:

  def __init__(self, p):
    self.p, self.asked = p, []

  def Suggest(self, req):
    self.asked.append(req.count)
    d = pythia_service_pb2.SuggestDecision()
    for _ in range(self.p):
      d.suggestions.add().parameters.add(parameter_id='x').value.number_value = 0.5
    return d


def suggest_any_n(n: int, a: int, r: int, p: int) -> bool:
  """
  pre: 1 <= n and 0 <= a <= 2 and 0 <= r <= 2 and 0 <= p <= 3
  post: _
  """
  a, r, p = conc(a, 0, 2), conc(r, 0, 2), conc(p, 0, 3)
  py = _Pythia(p)
  sv = svc.new_servicer(pythia=py)
  svc.add_study(sv)
  tid = 0
  for _ in range(a):
    tid += 1
    sv.datastore.create_trial(svc.make_trial(tid, ACTIVE, client='w'))
  tid += 1
  sv.datastore.create_trial(svc.make_trial(tid, ACTIVE, client='v'))
  for _ in range(r):
    tid += 1
    sv.datastore.create_trial(svc.make_trial(tid, REQUESTED))
  op, exc = svc.call(sv.SuggestTrials, vs.SuggestTrialsRequest(parent=S, suggestion_count=n, client_id='w'))
  if exc is not None or not op.done or op.HasField('error'):
    return finish(False, (n, a, r, p))
  resp = vs.SuggestTrialsResponse.FromString(op.response.value)
  got = len(resp.trials)
  need_pythia = n > a + r
  delivered = p if need_pythia else 0
  want = n if n <= a + r + delivered else a + r + delivered          # exactly N, fewer only if fewer were delivered
  ok = got == want
  ok = ok and all(t.state == ACTIVE and t.client_id == 'w' for t in resp.trials)
  stored = sv.datastore.list_trials(S)
  ok = ok and len(stored) == tid + delivered                          # nothing dropped: surplus is queued
  n_req_left = len([t for t in stored if t.state == REQUESTED])
  from_pool = 0 if n <= a else (n - a if n - a <= r else r)              # REQUESTED trials handed out
  new_used = 0 if not need_pythia else (n - a - r if n - a - r <= delivered else delivered)
  ok = ok and n_req_left == (r - from_pool) + (delivered - new_used)
  if need_pythia:
    ok = ok and len(py.asked) == 1 and py.asked[0] == n - a - r       # asked for exactly the missing amount
  else:
    ok = ok and py.asked == []
  reach('pythia' if need_pythia else 'no_pythia')
  return finish(ok, (n, a, r, p))
