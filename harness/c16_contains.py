"""C16 membership: ParameterConfig.contains / SearchSpace.contains vs. an oracle written from the property text.

Encoded (real code, imported from /repo): ParameterConfig.factory, ParameterConfig.contains, _assert_feasible,
ParameterType.assert_correct_type, ParameterValue.as_*; SearchSpace.contains / assert_contains.
"""
import math

from engine.hsupport import conc, finish, reach
from vizier._src.pyvizier.shared import parameter_config as pc
from vizier._src.pyvizier.shared import trial as tr

ASSUMPTIONS = [
    'floats are modelled by CrossHair as reals plus inf/NaN flags: no float-rounding claim (float(int) exact)',
    'a bool offered to a numeric parameter and numeric strings such as "1.0" are don\'t-cares (property is silent)',
]


def _finite(x):
  return x == x and x != float('inf') and x != float('-inf')


def contains_double(lo: float, hi: float, v: float) -> bool:
  """
  pre: True
  post: _
  """
  if not (_finite(lo) and _finite(hi) and lo <= hi):
    return True
  cfg = pc.ParameterConfig.factory('x', bounds=(lo, hi))
  got = cfg.contains(v)
  want = (v == v) and lo <= v <= hi
  reach('double_in' if want else 'double_out')
  return finish(got == want, (lo, hi, v))


def contains_double_intvalue(lo: float, hi: float, v: int) -> bool:
  """
  pre: True
  post: _
  """
  if not (_finite(lo) and _finite(hi) and lo <= hi):
    return True
  cfg = pc.ParameterConfig.factory('x', bounds=(lo, hi))
  got = cfg.contains(v)
  want = lo <= v <= hi
  reach('double_int_in' if want else 'double_int_out')
  return finish(got == want, (lo, hi, v))


def contains_integer_int(lo: int, hi: int, v: int) -> bool:
  """
  pre: lo <= hi
  post: _
  """
  cfg = pc.ParameterConfig.factory('x', bounds=(lo, hi))
  got = cfg.contains(v)
  want = lo <= v <= hi
  reach('int_in' if want else 'int_out')
  return finish(got == want, (lo, hi, v))


def contains_integer_float(lo: int, hi: int, v: float) -> bool:
  """
  pre: lo <= hi
  post: _
  """
  cfg = pc.ParameterConfig.factory('x', bounds=(lo, hi))
  got = cfg.contains(v)  # must be a bool: an escaping exception is a violation
  if not _finite(v):
    want = False
    reach('int_nonfinite')
  else:
    want = (v == int(v)) and lo <= v <= hi   # math.floor would realise v (C function)
    reach('int_float_in' if want else 'int_float_out')
  return finish(got == want, (lo, hi, v))


def contains_discrete(n: int, a: float, b: float, c: float, v: float) -> bool:
  """
  pre: 1 <= n <= 3
  post: _
  """
  n = conc(n, 1, 3)
  vals = [a, b, c][:n]
  for x in vals:
    if not _finite(x):
      return True
  for i in range(n):
    for j in range(i + 1, n):
      if vals[i] == vals[j]:
        return True
  cfg = pc.ParameterConfig.factory('x', feasible_values=vals)
  fv = cfg.feasible_values
  ok = len(fv) == n
  for i in range(n - 1):
    ok = ok and fv[i] < fv[i + 1]          # sorted and unique
  for x in vals:
    ok = ok and (x in fv)
  got = cfg.contains(v)
  want = False
  for x in vals:
    if v == x:
      want = True
  reach('disc_in' if want else 'disc_out')
  return finish(ok and got == want, (n, a, b, c, v))


def contains_categorical(n: int, a: str, b: str, c: str, v: str) -> bool:
  """
  pre: 1 <= n <= 3 and len(a) <= 2 and len(b) <= 2 and len(c) <= 2 and len(v) <= 2
  post: _
  """
  n = conc(n, 1, 3)
  vals = [a, b, c][:n]
  for i in range(n):
    for j in range(i + 1, n):
      if vals[i] == vals[j]:
        return True
  cfg = pc.ParameterConfig.factory('x', feasible_values=vals)
  fv = cfg.feasible_values
  ok = len(fv) == n
  for i in range(n - 1):
    ok = ok and fv[i] < fv[i + 1]
  got = cfg.contains(v)
  want = False
  for x in vals:
    if v == x:
      want = True
  reach('cat_in' if want else 'cat_out')
  return finish(ok and got == want, (n, a, b, c, v))


def contains_wrong_kind(kind: int, lo: int, hi: int, s: str, f: float) -> bool:
  """
  pre: 0 <= kind <= 2 and lo <= hi and len(s) <= 2
  post: _
  """
  kind = conc(kind, 0, 2)
  if kind == 0:      # a non-numeric string offered to an INTEGER parameter
    for ch in s:
      if not ('o' <= ch <= 'z'):
        return True   # only strings over o..z: certainly not parseable as a number (numeric strings are don't-cares)
    cfg = pc.ParameterConfig.factory('x', bounds=(lo, hi))
    got = cfg.contains(s)
    reach('str_to_int')
    return finish(got is False, (kind, lo, hi, s, f))
  if kind == 1:      # a number offered to a CATEGORICAL parameter
    cfg = pc.ParameterConfig.factory('x', feasible_values=['a', 'b'])
    got = cfg.contains(f)
    reach('float_to_cat')
    return finish(got is False, (kind, lo, hi, s, f))
  # an int offered to a CATEGORICAL parameter
  cfg = pc.ParameterConfig.factory('x', feasible_values=['1', '2'])
  got = cfg.contains(lo)
  reach('int_to_cat')
  return finish(got is False, (kind, lo, hi, s, f))


def contains_wrapped(kind: int, v: float, i: int, s: int) -> bool:
  """
  pre: 0 <= kind <= 4 and 0 <= s <= 4
  post: _
  """
  kind = conc(kind, 0, 4)
  args = (kind, v, i, s)
  s = ['32', '16.0', '64 ', 'x', ''][conc(s, 0, 4)]
  # membership of a WRAPPED value (ParameterValue, as carried by ParameterDict / Trial.parameters) is membership of the
  # value it wraps: no casting on the way
  if kind == 0:      # integer-valued discrete (presented as int): a float next to a feasible value is not a member
    if not _finite(v):
      return True
    cfg = pc.ParameterConfig.factory('d', feasible_values=[16, 32, 64])
    got, want = cfg.contains(tr.ParameterValue(v)), (v == 16 or v == 32 or v == 64)
  elif kind == 1:    # ... nor is a string
    cfg = pc.ParameterConfig.factory('d', feasible_values=[16, 32, 64])
    got, want = cfg.contains(tr.ParameterValue(s)), False
  elif kind == 2:    # non-integral discrete
    if not _finite(v):
      return True
    cfg = pc.ParameterConfig.factory('d', feasible_values=[0.25, 0.5])
    got, want = cfg.contains(tr.ParameterValue(v)), (v == 0.25 or v == 0.5)
  elif kind == 3:    # boolean parameter (categorical 'True'/'False'): numbers are not members
    cfg = pc.ParameterConfig.factory('b', feasible_values=['False', 'True'], external_type=pc.ExternalType.BOOLEAN)
    got, want = cfg.contains(tr.ParameterValue(i)), False
  else:              # INTEGER range: an int inside / outside
    cfg = pc.ParameterConfig.factory('n', bounds=(1, 5))
    got, want = cfg.contains(tr.ParameterValue(i)), 1 <= i <= 5
  reach('wrapped%d_%s' % (kind, 'in' if want else 'out'))
  return finish(got == want, args)
