"""C10 (metadata store at the object level): Metadata views (`ns` / `abs_ns`) share one store -- whatever sequence of writes
through held views, deletes, `update` and `attach` is performed, every view and `all_items()` of every handle show the
last-written value of every (namespace, key), exactly as a dictionary keyed by (namespace, key) would.

The sequence (5 operations out of a menu of 12, on a root handle, two views held from the start and a second Metadata object
that gets attached) is chosen by the solver; the pure-Python Metadata code runs natively on it (dictionary keys must be
concrete: hashing realises symbolic strings).

Encoded (real code): common.Metadata.ns/abs_ns/__setitem__/__delitem__/update/attach/all_items/namespaces, Namespace.
"""
import os

from engine.hsupport import NoTracing, conc, finish, reach
from vizier._src.pyvizier.shared import common

ASSUMPTIONS = ['operation sequences of length 5 from a menu of 12; keys and namespace components from a fixed small alphabet']
MENU = ['root[k]=', 'viewA[k]=', 'viewA[j]=', 'viewAB[k]=', 'fresh ns(a)[k]=', 'del viewA[k]', 'attach other->root',
        'attach other.ns(a)->viewA', 'other.ns(a)[k]=', 'other.abs(a,b)[j]=', 'root.update(ns a)', 'abs_ns(a,b)[k]=']


def _run(ops, args):
  with NoTracing():
    root = common.Metadata()
    view_a = root.ns('a')                 # held from the start
    view_ab = root.abs_ns(['a', 'b'])
    other = common.Metadata()
    model, omodel = {}, {}                # (namespace tuple, key) -> value   for root / other
    n = 0
    ok, where = True, None
    for step, o in enumerate(ops):
      n += 1
      v = 'v%d' % n
      if o == 0:
        root['k'] = v
        model[((), 'k')] = v
      elif o == 1:
        view_a['k'] = v
        model[(('a',), 'k')] = v
      elif o == 2:
        view_a['j'] = v
        model[(('a',), 'j')] = v
      elif o == 3:
        view_ab['k'] = v
        model[(('a', 'b'), 'k')] = v
      elif o == 4:
        root.ns('a')['k'] = v
        model[(('a',), 'k')] = v
      elif o == 5:
        if (('a',), 'k') in model:
          del view_a['k']
          del model[(('a',), 'k')]
      elif o == 6:
        root.attach(other)
        model.update(omodel)
      elif o == 7:
        view_a.attach(other.ns('a'))
        for (ns, k), val in omodel.items():
          if ns[:1] == ('a',):
            model[(('a',) + ns[1:], k)] = val
      elif o == 8:
        other.ns('a')['k'] = v
        omodel[(('a',), 'k')] = v
      elif o == 9:
        other.abs_ns(['a', 'b'])['j'] = v
        omodel[(('a', 'b'), 'j')] = v
      elif o == 10:
        m2 = common.Metadata()
        m2['k'] = v
        view_a.update(m2)
        model[(('a',), 'k')] = v
      elif o == 11:
        root.abs_ns(['a', 'b'])['k'] = v
        model[(('a', 'b'), 'k')] = v
      # every handle sees the same store
      got = {(tuple(ns), k): val for ns, k, val in root.all_items()}
      got_a = {k: val for k, val in view_a.items()}
      got_ab = {k: val for k, val in view_ab.items()}
      want_a = {k: val for (ns, k), val in model.items() if ns == ('a',)}
      want_ab = {k: val for (ns, k), val in model.items() if ns == ('a', 'b')}
      via_a = {(tuple(ns), k): val for ns, k, val in view_a.all_items()}
      if not (got == model and got_a == want_a and got_ab == want_ab and via_a == model):
        ok, where = False, [step, MENU[o], sorted(got.items()), sorted(model.items()), sorted(got_a.items())]
        break
  reach('views')
  return finish(ok, args, obs=[[MENU[o] for o in ops], where])


def view_history(o1: int, o2: int, o3: int, o4: int, o5: int) -> bool:
  """
  pre: 0 <= o1 <= 11 and 0 <= o2 <= 11 and 0 <= o3 <= 11 and 0 <= o4 <= 11 and 0 <= o5 <= 11
  post: _
  """
  o1 = conc(o1, 0, 11)
  sl = os.environ.get('VERIF_SLICE')
  if sl is not None and o1 != int(sl):
    return True
  o2, o3, o4, o5 = conc(o2, 0, 11), conc(o3, 0, 11), conc(o4, 0, 11), conc(o5, 0, 11)
  return _run([o1, o2, o3, o4, o5], (o1, o2, o3, o4, o5))


def view_history4(o1: int, o2: int, o3: int, o4: int) -> bool:
  """
  pre: 0 <= o1 <= 11 and 0 <= o2 <= 11 and 0 <= o3 <= 11 and 0 <= o4 <= 11
  post: _
  """
  o1 = conc(o1, 0, 11)
  sl = os.environ.get('VERIF_SLICE')
  if sl is not None and o1 % 4 != int(sl):
    return True
  o2, o3, o4 = conc(o2, 0, 11), conc(o3, 0, 11), conc(o4, 0, 11)
  return _run([o1, o2, o3, o4], (o1, o2, o3, o4))
