"""C20 (partial): wrapper experimenters transform only what they document; evaluation completes every trial and leaves the
suggested parameters intact; problem statements are returned by value.

What is symbolic: the objective values produced by the wrapped experimenter (an UNINTERPRETED base objective: a stub
experimenter that completes each trial with solver-chosen real values and records the point it was asked to evaluate),
the discretisation values, and the configuration (which wrapper, which options, which feasible point, which mutation of
a returned problem statement).  The wrappers' own Python code (sign flip, normalising evaluate, discretising, switch,
noisy bookkeeping, NumpyExperimenter's finite/infeasible split) runs under the symbolic executor on those values.
Points that must pass through the numpy converters (shifting, hyper-cube, permuting, the synthetic functions) are taken from
finite grids chosen by solver branching and the real numpy code runs on them outside tracing.

Encoded (real code): SignFlipExperimenter, NormalizingExperimenter.evaluate (+ __init__ natively), HyperCubeExperimenter,
DiscretizingExperimenter, ShiftingExperimenter, PermutingExperimenter, SwitchExperimenter, NoisyExperimenter (+ from_type),
NumpyExperimenter, MultiObjectiveNumpyExperimenter, HashingInfeasibleExperimenter, ParamRegionInfeasibleExperimenter,
SparseExperimenter, experimenter_factory.BBOBExperimenterFactory/SingleObjectiveExperimenterFactory, bbob.Sphere/Rastrigin,
simplekd.SimpleKDExperimenter.
"""
import copy
import math

import numpy as np
from engine.hsupport import NoTracing, cbool, conc, finish, reach
from vizier import pyvizier as vz
from vizier._src.benchmarks.experimenters import discretizing_experimenter as disc
from vizier._src.benchmarks.experimenters import experimenter as exp_lib
from vizier._src.benchmarks.experimenters import experimenter_factory
from vizier._src.benchmarks.experimenters import infeasible_experimenter as infeas
from vizier._src.benchmarks.experimenters import noisy_experimenter as noisy
from vizier._src.benchmarks.experimenters import normalizing_experimenter as norm
from vizier._src.benchmarks.experimenters import numpy_experimenter as npexp
from vizier._src.benchmarks.experimenters import permuting_experimenter as perm
from vizier._src.benchmarks.experimenters import shifting_experimenter as shift
from vizier._src.benchmarks.experimenters import sign_flip_experimenter as flip
from vizier._src.benchmarks.experimenters import sparse_experimenter as sparse
from vizier._src.benchmarks.experimenters import switch_experimenter as switch
from vizier._src.benchmarks.experimenters.synthetic import bbob
from vizier._src.benchmarks.experimenters.synthetic import simplekd

import datetime as _dt
# CrossHair's datetime model cannot rebuild a native datetime from its pickle form inside copy.deepcopy (TypeError under
# tracing only); datetimes are immutable, so deep-copying them atomically is semantics-preserving.
for _cls in (_dt.datetime, _dt.date, _dt.timedelta, _dt.timezone):
  copy._deepcopy_dispatch[_cls] = copy._deepcopy_atomic

ASSUMPTIONS = [
    'copy.deepcopy treats (immutable) datetime objects as atomic (CrossHair datetime model limitation)',
    'base objective = uninterpreted stub experimenter (symbolic real values, records the evaluated point); the synthetic '
    'functions themselves (BBOB rotations etc.) run natively on grid points only',
    'float values are reals in the symbolic obligations (no rounding claim); grids are dyadic so the native float '
    'arithmetic on them is exact',
]


def _finite(x):
  return x == x and x != float('inf') and x != float('-inf')


class Stub(exp_lib.Experimenter):
  """Uninterpreted base objective: completes every trial with the given metric values, records what it was asked."""

  def __init__(self, problem, values=None, infeasible=False, fn=None):
    self._problem = problem
    self.values = values or {}
    self.infeasible = infeasible
    self.fn = fn
    self.seen = []

  def evaluate(self, suggestions):
    for t in suggestions:
      self.seen.append({k: (type(v.value).__name__, v.value) for k, v in t.parameters.items()})
      if self.infeasible:
        t.complete(vz.Measurement(), infeasibility_reason='stub')
      elif self.fn is not None:
        t.complete(vz.Measurement(metrics=self.fn(t.parameters, len(self.seen) - 1)))
      else:
        t.complete(vz.Measurement(metrics=dict(self.values)))

  def problem_statement(self):
    return copy.deepcopy(self._problem)


def _problem2():
  p = vz.ProblemStatement()
  p.search_space.root.add_float_param('x', 0.0, 1.0)
  p.metric_information.append(vz.MetricInformation(name='up', goal=vz.ObjectiveMetricGoal.MAXIMIZE))
  p.metric_information.append(vz.MetricInformation(name='down', goal=vz.ObjectiveMetricGoal.MINIMIZE))
  return p


def _problem1(goal=vz.ObjectiveMetricGoal.MAXIMIZE, dims=1, lo=0.0, hi=1.0):
  p = vz.ProblemStatement()
  for i in range(dims):
    p.search_space.root.add_float_param('x%d' % i, lo, hi)
  p.metric_information.append(vz.MetricInformation(name='obj', goal=goal))
  return p


def _metrics(t):
  return {k: m.value for k, m in t.final_measurement.metrics.items()} if t.final_measurement is not None else None


# ---------------------------------------------------------------------------------------------------------- sign flip
def sign_flip(v_up: float, v_down: float, v_aux: float, only: bool, infeasible: bool, twice: bool) -> bool:
  """
  post: _
  """
  if not (_finite(v_up) and _finite(v_down) and _finite(v_aux)):
    return True
  only, infeasible, twice = cbool(only), cbool(infeasible), cbool(twice)
  with NoTracing():
    base = Stub(_problem2(), infeasible=infeasible)
  base.values = {'up': v_up, 'down': v_down, 'aux': v_aux}
  w = flip.SignFlipExperimenter(base, flip_objectives_only=only)
  if twice:
    w = flip.SignFlipExperimenter(w, flip_objectives_only=only)
  t = vz.Trial(parameters={'x': 0.25})
  w.evaluate([t])
  ps = w.problem_statement()
  goals = {m.name: m.goal for m in ps.metric_information}
  MAX, MIN = vz.ObjectiveMetricGoal.MAXIMIZE, vz.ObjectiveMetricGoal.MINIMIZE
  ok = t.parameters.as_dict() == {'x': 0.25} and base.seen == [{'x': ('float', 0.25)}]
  ok = ok and t.status == vz.TrialStatus.COMPLETED and t.infeasible == infeasible
  if twice:                                             # an involution: values and goals of the base experimenter
    ok = ok and goals == {'up': MAX, 'down': MIN}
    want = {'up': v_up, 'down': v_down, 'aux': v_aux}
  else:
    ok = ok and goals == {'up': MIN, 'down': MAX}
    want = {'up': -v_up, 'down': -v_down, 'aux': v_aux if only else -v_aux}
  if infeasible:
    ok = ok and _metrics(t) in (None, {})
  else:
    got = _metrics(t)
    ok = ok and got is not None and sorted(got) == ['aux', 'down', 'up']
    ok = ok and got['up'] == want['up'] and got['down'] == want['down'] and got['aux'] == want['aux']
  # the base experimenter's statement is untouched by the flipping of the returned copy
  ok = ok and {m.name: m.goal for m in base.problem_statement().metric_information} == {'up': MAX, 'down': MIN}
  reach('flip_%s_%s' % ('twice' if twice else 'once', 'infeasible' if infeasible else 'feasible'))
  return finish(ok, (v_up, v_down, v_aux, only, infeasible, twice), obs=None if ok else [_metrics(t), str(goals)])


# ------------------------------------------------------------------------------------------------------- numpy / multi
def numpy_value(val: float, goal_min: bool, batch: int) -> bool:
  """
  pre: 0 <= batch <= 2
  post: _
  """
  goal_min, batch = cbool(goal_min), conc(batch, 0, 2)
  with NoTracing():
    p = _problem1(vz.ObjectiveMetricGoal.MINIMIZE if goal_min else vz.ObjectiveMetricGoal.MAXIMIZE, dims=2)
    calls = []
  def impl(arr):
    with NoTracing():
      calls.append([float(a) for a in arr])
    return val
  e = npexp.NumpyExperimenter(impl, p)
  trials = [vz.Trial(parameters={'x0': 0.25 * (k + 1), 'x1': 0.5}) for k in range(batch)]
  e.evaluate(trials)
  ok = calls == [[0.25 * (k + 1), 0.5] for k in range(batch)]
  for k, t in enumerate(trials):
    ok = ok and t.parameters.as_dict() == {'x0': 0.25 * (k + 1), 'x1': 0.5} and t.status == vz.TrialStatus.COMPLETED
    if _finite(val):
      got = _metrics(t)
      ok = ok and not t.infeasible and got is not None and list(got) == ['obj'] and got['obj'] == val
    else:
      ok = ok and t.infeasible
  reach('numpy_batch%d' % batch)
  return finish(ok, (val, goal_min, batch))


def multiobjective_value(v1: float, v2: float) -> bool:
  """
  post: _
  """
  if not (_finite(v1) and _finite(v2)):
    return True
  with NoTracing():
    p = _problem2()
  e = npexp.MultiObjectiveNumpyExperimenter(lambda arr: [v1, v2], p)
  t = vz.Trial(parameters={'x': 0.75})
  e.evaluate([t])
  got = _metrics(t)
  ok = t.parameters.as_dict() == {'x': 0.75} and got is not None and sorted(got) == ['down', 'up']
  ok = ok and got['up'] == v1 and got['down'] == v2
  reach('multi')
  return finish(ok, (v1, v2))


# -------------------------------------------------------------------------------------------------------- normalising
_NORM = {}


def _normalizer(shape):
  """NormalizingExperimenter over a stub whose normalisation samples follow one of three concrete profiles (100 samples) or
  consist of a single sample (shape 3) / two samples (shape 4)."""
  with NoTracing():
    if shape not in _NORM:
      prof = [lambda i: float(i % 7) - 3.0, lambda i: 5.0, lambda i: 1e6 * ((i * 37) % 11) - 2e6,
              lambda i: 2.5, lambda i: float(i)][shape]
      n = {3: 1, 4: 2}.get(shape, 100)
      base = Stub(_problem1(), fn=lambda params, i: {'obj': prof(i)})
      w = norm.NormalizingExperimenter(base, num_normalization_samples=n)
      _NORM[shape] = (base, w, [prof(i) for i in range(n)])
    return _NORM[shape]


def normalizing_order(shape: int, v1: float, v2: float) -> bool:
  """
  pre: 0 <= shape <= 4
  post: _
  """
  shape = conc(shape, 0, 4)
  if not (_finite(v1) and _finite(v2)):
    return True
  base, w, samples = _normalizer(shape)
  vals = [v1, v2]
  with NoTracing():
    n0 = len(base.seen)
  base.fn = lambda params, i: {'obj': vals[i - n0]}
  t1, t2 = vz.Trial(parameters={'x0': 0.25}), vz.Trial(parameters={'x0': 0.75})
  w.evaluate([t1, t2])
  n1, n2 = _metrics(t1)['obj'], _metrics(t2)['obj']
  ok = t1.parameters.as_dict() == {'x0': 0.25} and t2.parameters.as_dict() == {'x0': 0.75}
  ok = ok and (n1 < n2) == (v1 < v2) and (n1 == n2) == (v1 == v2)
  with NoTracing():
    mean = sum(samples) / len(samples)
  # the documented transformation: (y - empirical mean) / empirical std, so the empirical mean maps to ~0
  if v1 == mean:
    ok = ok and -1e-6 < n1 < 1e-6
  ok = ok and w.problem_statement() == base.problem_statement()
  reach('normalizing_shape%d' % shape)
  return finish(ok, (shape, v1, v2), obs=None if ok else [n1, n2])


# -------------------------------------------------------------------------------------------------------- discretising
def discretizing(f1: float, f2: float, f3: float, n: int, idx: int, other: float, as_str: bool) -> bool:
  """
  pre: 1 <= n <= 3 and 0 <= idx < n and -4 <= f1 and f1 < f2 and f2 < f3 and f3 <= 4
  post: _
  """
  n = conc(n, 1, 3)
  idx = conc(idx, 0, n - 1)
  as_str = cbool(as_str)
  if not (_finite(other) and -1 <= other <= 1):
    return True
  with NoTracing():
    p = vz.ProblemStatement()
    p.search_space.root.add_float_param('a', -4.0, 4.0)
    p.search_space.root.add_float_param('b', -1.0, 1.0)
    p.metric_information.append(vz.MetricInformation(name='obj', goal=vz.ObjectiveMetricGoal.MAXIMIZE))
    base = Stub(p, values={'obj': 3.0})
  if as_str:
    with NoTracing():
      fs = [-2.5, 0.0, 3.25][:n]                        # categories must be float-convertible strings: concrete
    values = [str(f) for f in fs]
  else:
    fs = [f1, f2, f3][:n]
    values = list(fs)
  w = disc.DiscretizingExperimenter(base, {'a': values})
  ps = w.problem_statement()
  cfg = ps.search_space.get('a')
  ok = cfg.type == (vz.ParameterType.CATEGORICAL if as_str else vz.ParameterType.DISCRETE)
  ok = ok and list(cfg.feasible_values) == (sorted(values) if as_str else values)
  ok = ok and ps.search_space.get('b').type == vz.ParameterType.DOUBLE and ps.search_space.get('b').bounds == (-1.0, 1.0)
  t = vz.Trial(parameters={'a': values[idx], 'b': other})
  w.evaluate([t])
  # the base objective was evaluated at the corresponding base point, the suggestion is handed back as suggested
  ok = ok and len(base.seen) == 1 and base.seen[0]['a'][0] == 'float' and base.seen[0]['a'][1] == fs[idx]
  ok = ok and base.seen[0]['b'][1] == other
  ok = ok and t.parameters['a'].value == values[idx] and isinstance(t.parameters['a'].value, str) == as_str
  ok = ok and t.parameters['b'].value == other and _metrics(t) == {'obj': 3.0}
  reach('discretizing_%s%d' % ('str' if as_str else 'num', n))
  return finish(ok, (f1, f2, f3, n, idx, other, as_str), obs=None if ok else [base.seen, str(t.parameters)])


def discretizing_rejects(f: float, lo: int, hi: int) -> bool:
  """
  pre: 0 <= lo <= 2 and 0 <= hi <= 2
  post: _
  """
  lo, hi = conc(lo, 0, 2), conc(hi, 0, 2)
  if not _finite(f):
    return True
  with NoTracing():
    bounds = (float(min(lo, hi)), float(max(lo, hi)))
    p = _problem1(lo=bounds[0], hi=bounds[1])
    base = Stub(p, values={'obj': 1.0})
  try:
    disc.DiscretizingExperimenter(base, {'x0': [f]})
    accepted = True
  except ValueError:
    accepted = False
  ok = accepted == (bounds[0] <= f <= bounds[1])        # "the discretized parameters must fit within the bounds"
  reach('discretizing_rejects')
  return finish(ok, (f, lo, hi))


# -------------------------------------------------------------------------------------------- switch / noisy bookkeeping
def switch_value(v0: float, v1: float, which: int, infeasible: bool) -> bool:
  """
  pre: 0 <= which <= 1
  post: _
  """
  which, infeasible = conc(which, 0, 1), cbool(infeasible)
  if not (_finite(v0) and _finite(v1)):
    return True
  with NoTracing():
    pa, pb = _problem1(), _problem1()
    pb.search_space = vz.SearchSpace()
    pb.search_space.root.add_float_param('y', 0.0, 1.0)
    pb.metric_information = vz.MetricsConfig([vz.MetricInformation(name='other', goal=vz.ObjectiveMetricGoal.MAXIMIZE)])
    a, b = Stub(pa, infeasible=infeasible and which == 0), Stub(pb, infeasible=infeasible and which == 1)
  a.values, b.values = {'obj': v0}, {'other': v1}
  w = switch.SwitchExperimenter([a, b])
  params = {'switch': which, ('x0' if which == 0 else 'y'): 0.5}
  t = vz.Trial(parameters=params)
  w.evaluate([t])
  ok = t.parameters.as_dict() == params
  ok = ok and len(a.seen) == (1 if which == 0 else 0) and len(b.seen) == (1 if which == 1 else 0)
  if not infeasible:
    ok = ok and _metrics(t) == {'switch_metric': v0 if which == 0 else v1}
  ps = w.problem_statement()
  ok = ok and [m.name for m in ps.metric_information] == ['switch_metric'] and ps.search_space.is_conditional
  reach('switch%d' % which)
  return finish(ok, (v0, v1, which, infeasible), obs=None if ok else [_metrics(t), a.seen, b.seen])


def noisy_bookkeeping(v: float, kind: int, seed: int) -> bool:
  """
  pre: 0 <= kind <= 10 and 0 <= seed <= 3
  post: _
  """
  kind, seed = conc(kind, 0, 10), conc(seed, 0, 3)
  if not _finite(v):
    return True
  with NoTracing():
    names = ['NO_NOISE', 'MODERATE_GAUSSIAN', 'SEVERE_GAUSSIAN', 'MODERATE_UNIFORM', 'SEVERE_UNIFORM',
             'MODERATE_SELDOM_CAUCHY', 'SEVERE_SELDOM_CAUCHY', 'LIGHT_ADDITIVE_GAUSSIAN', 'MODERATE_ADDITIVE_GAUSSIAN',
             'SEVERE_ADDITIVE_GAUSSIAN', None]
    base = Stub(_problem1())
  base.values = {'obj': v}
  if names[kind] is None:
    w = noisy.NoisyExperimenter(base, lambda y: y + 1.0)            # user-supplied noise function
  elif kind == 0:
    w = noisy.NoisyExperimenter.from_type(base, names[kind], seed=seed)
  else:
    # the library noise functions run numpy RNG + power/lognormal: concrete value, reproducibility of the stream
    with NoTracing():
      out = []
      for run in range(2):
        # "independent of global random state": the two runs start from different global numpy / python RNG states
        np.random.seed(1234 + 77 * run)
        import random as _random
        _random.seed(99 + run)
        b2 = Stub(_problem1(), values={'obj': 2.5})
        w2 = noisy.NoisyExperimenter.from_type(b2, names[kind], seed=seed)
        ts = [vz.Trial(parameters={'x0': 0.5}) for _ in range(120)]      # (seldom noise fires in 5 % of the draws)
        w2.evaluate(ts[:1])
        w2.evaluate(ts[1:])
        out.append([_metrics(t) for t in ts])
      ok = out[0] == out[1] and all(m['obj_before_noise'] == 2.5 and math.isfinite(m['obj']) for m in out[0])
      if kind not in (5, 6):                                        # (seldom-Cauchy noise is mostly zero)
        ok = ok and len({m['obj'] for m in out[0]}) > 1             # the stream advances: three different draws
      ok = ok and all(t.parameters.as_dict() == {'x0': 0.5} for t in ts)
    reach('noisy_native')
    return finish(ok, (v, kind, seed), obs=None if ok else out)
  t = vz.Trial(parameters={'x0': 0.5})
  w.evaluate([t])
  got = _metrics(t)
  ok = t.parameters.as_dict() == {'x0': 0.5} and got is not None and sorted(got) == ['obj', 'obj_before_noise']
  if names[kind] is None:
    want = v + 1.0
  else:
    # NO_NOISE still goes through the bbob-noisy stabilisation: values at or above the target get 1.01 * target added
    want = v + 1.01 * 1e-8 if v >= 1e-8 else v
  ok = ok and got['obj_before_noise'] == v and got['obj'] == want
  ok = ok and w.problem_statement() == base.problem_statement()
  reach('noisy_symbolic')
  return finish(ok, (v, kind, seed), obs=None if ok else got)


# ----------------------------------------------------------------------- grid obligations through the numpy converters
def shifting_grid(dims: int, restrict: bool, s0: int, s1: int, x0: int, x1: int) -> bool:
  """
  pre: 1 <= dims <= 2 and -3 <= s0 <= 3 and -1 <= s1 <= 1 and 0 <= x0 <= 8 and 0 <= x1 <= 4
  post: _
  """
  dims, restrict = conc(dims, 1, 2), cbool(restrict)
  args = (dims, restrict, s0, s1, x0, x1)
  s0, x0 = conc(s0, -3, 3), conc(x0, 0, 8)
  if dims == 2:
    s1, x1 = conc(s1, -1, 1), 2 * conc(x1, 0, 4)
  else:
    s1, x1 = 0, 0
  with NoTracing():
    lo, hi = -1.0, 1.0
    sh = [s0 / 4.0, s1 / 4.0][:dims]
    base = Stub(_problem1(dims=dims, lo=lo, hi=hi), fn=lambda params, i: {'obj': sum(v.value for v in params.values())})
    w = shift.ShiftingExperimenter(base, np.asarray(sh), should_restrict=restrict)
    ps = w.problem_statement()
    ok = True
    xs = [lo + x0 / 4.0, lo + x1 / 4.0][:dims]
    for d in range(dims):
      b = ps.search_space.get('x%d' % d).bounds
      want = (lo + max(sh[d], 0.0), hi + min(sh[d], 0.0)) if restrict else (lo, hi)
      ok = ok and b == want
      if not (b[0] <= xs[d] <= b[1]):
        reach('shifting_outside')
        return True                                       # only points of the wrapper's own search space
    params = {'x%d' % d: xs[d] for d in range(dims)}
    ts = [vz.Trial(parameters=params), vz.Trial(parameters=params)]
    w.evaluate(ts)
    want_seen = {'x%d' % d: ('float', xs[d] - sh[d]) for d in range(dims)}
    if not restrict:
      # without restriction the base objective is evaluated at the shifted point even outside its box
      pass
    ok = ok and base.seen == [want_seen, want_seen]
    for t in ts:
      ok = ok and t.parameters.as_dict() == params and _metrics(t) == {'obj': sum(xs[d] - sh[d] for d in range(dims))}
  reach('shifting_inside')
  return finish(ok, args, obs=None if ok else [base.seen, str(ps.search_space)])


def permuting_grid(seed: int, ic: int, id_: int, both: int) -> bool:
  """
  pre: 0 <= seed <= 7 and 0 <= ic <= 2 and 0 <= id_ <= 3 and 0 <= both <= 2
  post: _
  """
  seed, ic, id_, both = conc(seed, 0, 7), conc(ic, 0, 2), conc(id_, 0, 3), conc(both, 0, 2)
  with NoTracing():
    p = vz.ProblemStatement()
    cats, nums = ['a', 'b', 'c'], [1.0, 2.0, 4.0, 8.0]
    p.search_space.root.add_categorical_param('c', cats)
    p.search_space.root.add_discrete_param('d', nums)
    p.search_space.root.add_discrete_param('e', [2.0, 4.0, 16.0])          # overlaps the values of d
    p.search_space.root.add_float_param('x', 0.0, 1.0)
    p.metric_information.append(vz.MetricInformation(name='obj', goal=vz.ObjectiveMetricGoal.MAXIMIZE))
    base = Stub(p, values={'obj': 1.0})
    which = [['c'], ['d', 'e'], ['c', 'd', 'e']][both]
    w = perm.PermutingExperimenter(base, which, seed=seed)
    # the mapping applied to each permuted parameter, observed through the base experimenter, is a bijection
    images = {'c': [], 'd': [], 'e': []}
    ok = True
    for name, dom in (('c', cats), ('d', nums), ('e', [2.0, 4.0, 16.0])):
      for v in dom:
        params = {'c': cats[ic], 'd': nums[id_], 'e': 4.0, 'x': 0.5}
        params[name] = v
        t = vz.Trial(parameters=params)
        w.evaluate([t])
        ok = ok and t.parameters.as_dict() == params and _metrics(t) == {'obj': 1.0}
        seen = base.seen[-1]
        images[name].append(seen[name][1])
        ok = ok and seen['x'] == ('float', 0.5)
        if name not in which:
          ok = ok and seen[name][1] == v
    ok = ok and sorted(images['c']) == cats and sorted(images['d']) == nums and sorted(images['e']) == [2.0, 4.0, 16.0]
    # same seed, same permutation; the statement is the base's
    w2 = perm.PermutingExperimenter(Stub(p, values={'obj': 1.0}), which, seed=seed)
    t = vz.Trial(parameters={'c': cats[ic], 'd': nums[id_], 'e': 4.0, 'x': 0.5})
    w2.evaluate([t])
    ok = ok and w2._exptr.seen[-1]['c'][1] == images['c'][ic] and w2._exptr.seen[-1]['d'][1] == images['d'][id_]
    ok = ok and w.problem_statement() == base.problem_statement()
  reach('permuting')
  return finish(ok, (seed, ic, id_, both), obs=None if ok else [images, base.seen[-1]])


def hypercube_grid(h0: int, h1: int, lo: int, width: int) -> bool:
  """
  pre: 0 <= h0 <= 4 and 0 <= h1 <= 4 and -2 <= lo <= 2 and 1 <= width <= 3
  post: _
  """
  h0, h1, lo, width = conc(h0, 0, 4), conc(h1, 0, 4), conc(lo, -2, 2), conc(width, 1, 3)
  with NoTracing():
    p = vz.ProblemStatement()
    p.search_space.root.add_float_param('a', float(lo), float(lo + width))
    p.search_space.root.add_float_param('b', -8.0, 8.0)
    p.metric_information.append(vz.MetricInformation(name='obj', goal=vz.ObjectiveMetricGoal.MAXIMIZE))
    base = Stub(p, fn=lambda params, i: {'obj': params['a'].value * 100 + params['b'].value})
    w = norm.HyperCubeExperimenter(base)
    ps = w.problem_statement()
    ok = [(c.name, c.bounds) for c in ps.search_space.parameters] == [('h0', (0.0, 1.0)), ('h1', (0.0, 1.0))]
    params = {'h0': h0 / 4.0, 'h1': h1 / 4.0}
    t = vz.Trial(parameters=params)
    w.evaluate([t])
    a, b = lo + width * h0 / 4.0, -8.0 + 16.0 * h1 / 4.0
    ok = ok and len(base.seen) == 1 and base.seen[0]['a'] == ('float', a) and base.seen[0]['b'] == ('float', b)
    ok = ok and t.parameters.as_dict() == params and _metrics(t) == {'obj': a * 100 + b}
  reach('hypercube')
  return finish(ok, (h0, h1, lo, width), obs=None if ok else [base.seen, _metrics(t)])


def hypercube_many(k: int, n: int) -> bool:
  """
  pre: 0 <= k <= 11 and 11 <= n <= 12
  post: _
  """
  k, n = conc(k, 0, 11), conc(n, 11, 12)
  with NoTracing():
    # more than 10 coordinates (h10 sorts before h2 as a string), every base parameter with its own box
    p = vz.ProblemStatement()
    names = ['p%02d' % i for i in range(n)]
    for i, name in enumerate(names):
      p.search_space.root.add_float_param(name, float(i), float(i) + 2.0 ** (i % 4))
    p.metric_information.append(vz.MetricInformation(name='obj', goal=vz.ObjectiveMetricGoal.MAXIMIZE))
    base = Stub(p, fn=lambda params, i: {'obj': sum((j + 1) * params[nm].value for j, nm in enumerate(names))})
    w = norm.HyperCubeExperimenter(base)
    hs = [((i * 5 + k) % 9) / 8.0 for i in range(n)]                  # distinct dyadic coordinates
    params = {'h%d' % i: hs[i] for i in range(n)}
    t = vz.Trial(parameters=params)
    w.evaluate([t])
    want = {nm: ('float', float(i) + hs[i] * 2.0 ** (i % 4)) for i, nm in enumerate(names)}
    ok = len(base.seen) == 1 and base.seen[0] == want and t.parameters.as_dict() == params
    ok = ok and _metrics(t) == {'obj': sum((j + 1) * want[nm][1] for j, nm in enumerate(names))}
  reach('hypercube_many')
  return finish(ok, (k, n), obs=None if ok else [base.seen, want])


# --------------------------------------------------------------------- every experimenter kind: contract and by-value


def _bbob(name, dim=2):
  return experimenter_factory.BBOBExperimenterFactory(name, dim)()


def _kinds():
  """name -> factory of (experimenter, list of feasible points).  Real synthetic functions where they exist."""
  def pts2():
    return [{'x0': -2.5, 'x1': 1.25}, {'x0': 0.0, 'x1': 0.0}, {'x0': 5.0, 'x1': -5.0}]

  def stub():
    return Stub(_problem1(dims=2, lo=-5.0, hi=5.0), fn=lambda params, i: {'obj': params['x0'].value - params['x1'].value})
  kinds = {
      'sphere': lambda: (_bbob('Sphere'), pts2()),
      'schwefel': lambda: (_bbob('Schwefel'), pts2()),
      'step-ellipsoidal': lambda: (_bbob('StepEllipsoidal'), pts2()),
      'flip(sphere)': lambda: (flip.SignFlipExperimenter(_bbob('Sphere')), pts2()),
      'shift(sphere)': lambda: (shift.ShiftingExperimenter(_bbob('Sphere'), np.asarray([1.0, -2.0])),
                                [{'x0': -2.5, 'x1': 1.25}, {'x0': 0.0, 'x1': 0.0}, {'x0': 5.0, 'x1': -5.0}]),
      'noisy(sphere)': lambda: (noisy.NoisyExperimenter.from_type(_bbob('Sphere'), 'SEVERE_GAUSSIAN', seed=1), pts2()),
      'normalizing(sphere)': lambda: (norm.NormalizingExperimenter(_bbob('Sphere'), num_normalization_samples=10), pts2()),
      'hypercube(sphere)': lambda: (norm.HyperCubeExperimenter(_bbob('Sphere')),
                                    [{'h0': 0.0, 'h1': 1.0}, {'h0': 0.5, 'h1': 0.25}]),
      'discretizing(sphere)': lambda: (disc.DiscretizingExperimenter(_bbob('Sphere'), {'x0': [-1.0, 0.0, 2.5]}),
                                       [{'x0': -1.0, 'x1': 0.5}, {'x0': 2.5, 'x1': -5.0}]),
      'grid-discretizing(sphere)': lambda: (disc.DiscretizingExperimenter.create_with_grid(_bbob('Sphere'), {'x1': 3}),
                                            [{'x0': 0.5, 'x1': -5.0}, {'x0': 0.5, 'x1': 0.0}, {'x0': 0.5, 'x1': 5.0}]),
      'hashing-infeasible(sphere)': lambda: (infeas.HashingInfeasibleExperimenter(_bbob('Sphere'), infeasible_prob=0.5,
                                                                                   seed=3), pts2()),
      'region-infeasible(sphere)': lambda: (infeas.ParamRegionInfeasibleExperimenter(
          _bbob('Sphere'), 'x0', infeasible_interval=(0.0, 0.3)), pts2()),
      'stub': lambda: (stub(), pts2()),
      'permuting(discretizing(stub))': lambda: (perm.PermutingExperimenter(
          disc.DiscretizingExperimenter(stub(), {'x0': [-1.0, 0.0, 2.5]}), ['x0'], seed=5),
          [{'x0': -1.0, 'x1': 0.5}, {'x0': 2.5, 'x1': -5.0}]),
      'flip(shift(stub))': lambda: (flip.SignFlipExperimenter(shift.ShiftingExperimenter(stub(), np.asarray([0.5, 0.5]))),
                                    [{'x0': -2.5, 'x1': 1.25}, {'x0': 5.0, 'x1': -4.5}]),
      'sparse(sphere)': lambda: (sparse.SparseExperimenter(_bbob('Sphere'), _sparse_space()),
                                 [{'x0': 0.0, 'x1': 1.0, 'pad': 0.5}]),
      'simplekd': lambda: (simplekd.SimpleKDExperimenter('corner'),
                           [{'float_0': 0.5, 'int_0': 2, 'discrete_0': 2, 'categorical': 'corner'},
                            {'float_0': -1.0, 'int_0': 1, 'discrete_0': 8, 'categorical': 'mixed'},
                            {'float_0': 1.0, 'int_0': 3, 'discrete_0': 5, 'categorical': 'center'}]),
      'switch(stub,sphere)': lambda: (switch.SwitchExperimenter([stub(), _bbob('Sphere')]),
                                      [{'switch': 0, 'x0': 1.0, 'x1': 2.0}, {'switch': 1, 'x0': 0.0, 'x1': 0.5}]),
  }
  return kinds


def _sparse_space():
  s = vz.SearchSpace()
  s.root.add_float_param('pad', 0.0, 1.0)
  return s


KINDS = sorted(_kinds())


def _objective_names(ps):
  return sorted(m.name for m in ps.metric_information)


def contract(kind: int, batch: int, first: int) -> bool:
  """
  pre: 0 <= kind <= 17 and 0 <= batch <= 3 and 0 <= first <= 2
  post: _
  """
  kind = conc(kind, 0, len(KINDS) - 1)
  batch, first = conc(batch, 0, 3), conc(first, 0, 2)
  with NoTracing():
    e, pts = _kinds()[KINDS[kind]]()
    ps = e.problem_statement()
    names = _objective_names(ps)
    pick = [pts[(first + k) % len(pts)] for k in range(batch)]
    trials = [vz.Trial(parameters=dict(pt)) for pt in pick]
    e.evaluate(trials)
    ok = True
    why = None
    for pt, t in zip(pick, trials):
      same = t.parameters.as_dict() == pt and all(type(t.parameters[k].value) is type(v) for k, v in pt.items())
      done = t.status == vz.TrialStatus.COMPLETED
      got = _metrics(t)
      if t.infeasible:
        good = True
      else:
        good = got is not None and all(n in got and math.isfinite(got[n]) for n in names)
      if not (same and done and good):
        ok, why = False, [pt, str(t.parameters), str(t.status), got]
    # one at a time gives the same values as one batch (deterministic kinds)
    if ok and 'noisy' not in KINDS[kind]:
      e2, _ = _kinds()[KINDS[kind]]()
      for pt, t in zip(pick, trials):
        t2 = vz.Trial(parameters=dict(pt))
        e2.evaluate([t2])
        if (_metrics(t2), t2.infeasible) != (_metrics(t), t.infeasible):
          ok, why = False, ['batch vs single', pt, _metrics(t), _metrics(t2)]
  reach('contract')
  return finish(ok, (kind, batch, first), obs=None if ok else [KINDS[kind], why])


def built_from_copy(which: int, mutation: int) -> bool:
  """
  pre: 0 <= which <= 1 and 0 <= mutation <= 2
  post: _
  """
  which, mutation = conc(which, 0, 1), conc(mutation, 0, 2)
  with NoTracing():
    # the caller keeps the statement it built the experimenter from and edits it later: the experimenter is unaffected
    p = _problem2() if which else _problem1(dims=2)
    keep = copy.deepcopy(p)
    if which:
      e = npexp.MultiObjectiveNumpyExperimenter(lambda arr: [float(arr[0]), 1.0 - float(arr[0])], p)
      pt = {'x': 0.25}
    else:
      e = npexp.NumpyExperimenter(lambda arr: float(arr[0] - arr[1]), p)
      pt = {'x0': 0.75, 'x1': 0.25}
    if mutation == 0:
      p.search_space.root.add_float_param('injected', 0.0, 1.0)
    elif mutation == 1:
      p.metric_information.append(vz.MetricInformation(name='injected', goal=vz.ObjectiveMetricGoal.MINIMIZE))
    else:
      for m in p.metric_information:
        m.goal = vz.ObjectiveMetricGoal.MINIMIZE if m.goal.is_maximize else vz.ObjectiveMetricGoal.MAXIMIZE
    ok = e.problem_statement() == keep
    t = vz.Trial(parameters=dict(pt))
    e.evaluate([t])
    ok = ok and t.status == vz.TrialStatus.COMPLETED and sorted(_metrics(t)) == _objective_names(keep)
    w = flip.SignFlipExperimenter(e)                    # a wrapper built afterwards sees the original statement
    ok = ok and len(w.problem_statement().search_space.parameters) == len(keep.search_space.parameters)
  reach('built_from_copy')
  return finish(ok, (which, mutation))


def factory_independent(noise: int, seed: int, n_between: int) -> bool:
  """
  pre: 0 <= noise <= 2 and 0 <= seed <= 2 and 0 <= n_between <= 3
  post: _
  """
  noise, seed, n_between = conc(noise, 0, 2), conc(seed, 0, 2), conc(n_between, 0, 3)
  with NoTracing():
    # two experimenters made by the same seeded factory are independent objects with the same reproducible behaviour,
    # whatever was evaluated on the first one in between
    def make():
      return experimenter_factory.SingleObjectiveExperimenterFactory(
          base_factory=experimenter_factory.BBOBExperimenterFactory('Sphere', 2),
          noise_type=[None, 'SEVERE_GAUSSIAN', 'MODERATE_UNIFORM'][noise], noise_seed=seed,
          num_normalization_samples=[0, 5, 1][seed])
    fac = make()
    pts = [{'x0': 1.0, 'x1': -2.0}, {'x0': 0.5, 'x1': 0.25}, {'x0': -4.0, 'x1': 3.0}]

    def run(e):
      ts = [vz.Trial(parameters=dict(p)) for p in pts]
      e.evaluate(ts)
      return [_metrics(t) for t in ts]
    e1 = fac()
    for _ in range(n_between):
      run(e1)                                            # traffic on the first experimenter
    e2 = fac()
    ref = run(make()())                                  # a fresh factory, fresh experimenter: the reference stream
    got = run(e2)
    ok = e2 is not e1 and got == ref
    ok = ok and all(m is not None and all(math.isfinite(v) for v in m.values()) for m in got)
  reach('factory_independent')
  return finish(ok, (noise, seed, n_between), obs=None if ok else [got, ref])


def by_value(kind: int, mutation: int) -> bool:
  """
  pre: 0 <= kind <= 17 and 0 <= mutation <= 2
  post: _
  """
  kind, mutation = conc(kind, 0, len(KINDS) - 1), conc(mutation, 0, 2)
  with NoTracing():
    e, pts = _kinds()[KINDS[kind]]()
    first = e.problem_statement()
    keep = copy.deepcopy(first)
    # a caller scribbles on what it was given
    if mutation == 0:
      first.search_space.root.add_float_param('injected', 0.0, 1.0)
    elif mutation == 1:
      first.metric_information.append(vz.MetricInformation(name='injected', goal=vz.ObjectiveMetricGoal.MINIMIZE))
    else:
      first.metadata['injected'] = 'x'
      for m in first.metric_information:
        m.goal = vz.ObjectiveMetricGoal.MINIMIZE if m.goal.is_maximize else vz.ObjectiveMetricGoal.MAXIMIZE
    second = e.problem_statement()
    ok = second == keep and second is not first
    # ... and the experimenter still evaluates as before
    t = vz.Trial(parameters=dict(pts[0]))
    e.evaluate([t])
    e2, _ = _kinds()[KINDS[kind]]()
    t2 = vz.Trial(parameters=dict(pts[0]))
    e2.evaluate([t2])
    if 'noisy' not in KINDS[kind]:
      ok = ok and (_metrics(t), t.infeasible) == (_metrics(t2), t2.infeasible)
  reach('by_value')
  return finish(ok, (kind, mutation), obs=None if ok else [KINDS[kind], str(second)[:300]])
