"""C12: each update given to a hosted designer = exactly the ACTIVE trials + the completed trials not given before.

Encoded (real code): trial_caches.IdDeduplicatingTrialLoader.get_newly_completed_trials/get_active_trials/dump/load/clear,
designer_policy._SerializableDesignerPolicyBase.suggest/_initialize_designer/dump/load,
PartiallySerializableDesignerPolicy._restore_designer, DesignerPolicy.suggest, InRamPolicySupporter.GetTrials/
study_descriptor/_UpdateMetadata, TrialFilter-free path.  The designer is a recording stub.

S-step: the pre-state (trial store over ids 1..N, the set of already incorporated ids, policy mode) is symbolic and only
assumed to satisfy the invariant "incorporated ids were COMPLETED when incorporated (they may have been deleted since; a
completed trial never becomes un-completed)".  One suggest() step; post = delivered sets + invariant re-established.
"""
import json

from engine.hsupport import NoTracing, cbool, conc, finish, known, reach
from vizier import pythia
from vizier import pyvizier as vz
from vizier._src.algorithms.core import abstractions as vza
from vizier._src.algorithms.policies import designer_policy as dp
from vizier._src.pythia import local_policy_supporters as lps
from vizier.interfaces import serializable

ABSENT, ACTIVE, REQUESTED, COMPLETED, INFEASIBLE, STOPPING = range(6)
INFEASIBLE_NOMEAS = 6   # completed as infeasible without any measurement (what the wire conversion produces)
_DONE = (COMPLETED, INFEASIBLE, INFEASIBLE_NOMEAS)
KF_SHORTCUT = 'C12-shortcut-len-equals-max-id-after-delete'
ASSUMPTIONS = [
    'designer = recording stub (records the ids passed to update, persists them through dump/load)',
    'pre-state invariant: incorporated ids are ids of trials that were COMPLETED when incorporated; such a trial is '
    'still COMPLETED or has been deleted (reachable through DeleteTrial in the service)',
    'max_trial_id passed in the request = largest id currently in the store (what VizierServicer passes)',
]


class RecDesigner(vza.PartiallySerializableDesigner):

  def __init__(self, problem=None, seed=None):
    self.seen = []
    self.updates = []

  def update(self, completed, all_active):
    c = sorted(t.id for t in completed.trials)
    a = sorted(t.id for t in all_active.trials)
    self.updates.append((c, a))
    self.seen = self.seen + c

  def suggest(self, count=None):
    return [vz.TrialSuggestion({'x': 0.5}) for _ in range(count or 1)]

  def dump(self):
    md = vz.Metadata()
    md['seen'] = json.dumps(self.seen)
    return md

  def load(self, md):
    if 'seen' not in md:
      raise serializable.HarmlessDecodeError('no state')
    self.seen = json.loads(md['seen'])


def _problem():
  p = vz.ProblemStatement()
  p.search_space.root.add_float_param('x', 0.0, 1.0)
  p.metric_information.append(vz.MetricInformation('m', goal=vz.ObjectiveMetricGoal.MAXIMIZE))
  return p


def _trial(i, kind):
  t = vz.Trial(id=i, parameters={'x': 0.25})
  if kind == REQUESTED:
    t.is_requested = True
  elif kind == COMPLETED:
    t.complete(vz.Measurement({'m': 1.0}))
  elif kind == INFEASIBLE:
    t.complete(vz.Measurement(), infeasibility_reason='bad')
  elif kind == STOPPING:
    t.stopping_reason = 'stop'
  elif kind == INFEASIBLE_NOMEAS:
    t = vz.Trial(id=i, parameters={'x': 0.25}, infeasibility_reason='bad')
  return t


def _run(kinds, inc, mode, count, args):
  n = len(kinds)
  # invariant of the pre-state
  for k, i in zip(kinds, inc):
    if i and k not in (ABSENT,) + _DONE:
      return True
  with NoTracing():
    problem = _problem()
    supporter = lps.InRamPolicySupporter(problem)
    for idx, k in enumerate(kinds):
      if k != ABSENT:
        supporter._trials[idx + 1] = _trial(idx + 1, k)
  inc_ids = sorted(i + 1 for i in range(n) if inc[i])
  completed_ids = sorted(i + 1 for i in range(n) if kinds[i] in _DONE)
  active_ids = sorted(i + 1 for i in range(n) if kinds[i] == ACTIVE)
  max_id = max([i + 1 for i in range(n) if kinds[i] != ABSENT] or [0])
  if known(KF_SHORTCUT) and mode in (0, 1, 4):
    # open finding: the shortcut `len(incorporated) == max_trial_id` fires although an un-incorporated id <= max exists
    if len(inc_ids) == max_id and [i for i in completed_ids if i not in inc_ids]:
      return True

  factory = lambda problem, seed=None: RecDesigner(problem)   # noqa: E731
  if mode == 3:        # rebuilt from scratch on every request: DesignerPolicy
    made = []

    def fac(p):
      d = RecDesigner(p)
      made.append(d)
      return d

    policy = dp.DesignerPolicy(supporter, fac, use_seeding=False)
    policy.suggest(pythia.SuggestRequest(study_descriptor=supporter.study_descriptor(), count=count))
    reach('mode3')
    ok = len(made) == 1 and made[0].updates == [(completed_ids, active_ids)]
    return finish(ok, args)

  live = dp.PartiallySerializableDesignerPolicy(problem, supporter, factory)
  live._designer = RecDesigner(problem)
  live._designer.seen = list(inc_ids)
  live._cache._incorporated_completed_trial_ids = set(inc_ids)
  if mode == 0:        # policy object kept alive
    policy = live
  elif mode == 1:      # rebuilt, state restored from study metadata (as written by a previous suggest)
    delta = vz.MetadataDelta()
    delta.on_study.ns(live._ns_root).attach(live.dump())
    supporter._UpdateMetadata(delta)
    policy = dp.PartiallySerializableDesignerPolicy(supporter.study_config, supporter, factory)
  elif mode == 4:      # rebuilt; the cache state decodes but the designer state does not (HarmlessDecodeError)
    delta = vz.MetadataDelta()
    delta.on_study.ns(live._ns_root).attach(live.dump())
    supporter._UpdateMetadata(delta)
    del supporter.study_config.metadata.ns(live._ns_root).ns(live._ns_designer)['seen']
    policy = dp.PartiallySerializableDesignerPolicy(supporter.study_config, supporter, factory)
  else:                # rebuilt, state lost
    policy = dp.PartiallySerializableDesignerPolicy(problem, supporter, factory)
  decision = policy.suggest(pythia.SuggestRequest(study_descriptor=supporter.study_descriptor(), count=count))
  d = policy.designer
  if mode in (2, 4):   # a fresh designer must be given everything (never a half-restored cache/designer pair)
    want_completed = completed_ids
    want_cache = set(completed_ids)
  else:
    want_completed = [i for i in completed_ids if i not in inc_ids]
    want_cache = set(inc_ids) | set(completed_ids)
  reach('mode%d' % mode)
  ok = d.updates == [(want_completed, active_ids)]
  ok = ok and policy._cache._incorporated_completed_trial_ids == want_cache
  ok = ok and len(d.seen) == len(set(d.seen))            # nothing delivered twice
  ok = ok and len(decision.suggestions) == count
  # the state is persisted for the next (rebuilt) policy
  ok = ok and live._ns_root in [ns[0] for ns in decision.metadata.on_study.namespaces() if len(ns)]
  return finish(ok, args)


def _step3(k1, k2, k3, i1, i2, i3, mode):
  kinds = [conc(k1, 0, 4), conc(k2, 0, 4), conc(k3, 0, 4)]
  if kinds[1] == INFEASIBLE:
    kinds[1] = INFEASIBLE_NOMEAS      # trial 2, when infeasible, carries no measurement
  inc = [cbool(i1), cbool(i2), cbool(i3)]
  return _run(kinds, inc, mode, 1, (k1, k2, k3, i1, i2, i3))


def step3_alive(k1: int, k2: int, k3: int, i1: bool, i2: bool, i3: bool) -> bool:
  """
  pre: 0 <= k1 <= 4 and 0 <= k2 <= 4 and 0 <= k3 <= 4
  post: _
  """
  return _step3(k1, k2, k3, i1, i2, i3, 0)


def step3_restored(k1: int, k2: int, k3: int, i1: bool, i2: bool, i3: bool) -> bool:
  """
  pre: 0 <= k1 <= 4 and 0 <= k2 <= 4 and 0 <= k3 <= 4
  post: _
  """
  return _step3(k1, k2, k3, i1, i2, i3, 1)


def step3_lost(k1: int, k2: int, k3: int, i1: bool, i2: bool, i3: bool) -> bool:
  """
  pre: 0 <= k1 <= 4 and 0 <= k2 <= 4 and 0 <= k3 <= 4
  post: _
  """
  return _step3(k1, k2, k3, i1, i2, i3, 2)


def step3_corrupt_designer_state(k1: int, k2: int, k3: int, i1: bool, i2: bool, i3: bool) -> bool:
  """
  pre: 0 <= k1 <= 4 and 0 <= k2 <= 4 and 0 <= k3 <= 4
  post: _
  """
  return _step3(k1, k2, k3, i1, i2, i3, 4)


def step3_scratch(k1: int, k2: int, k3: int, count: int) -> bool:
  """
  pre: 0 <= k1 <= 6 and 0 <= k2 <= 6 and 0 <= k3 <= 6 and 1 <= count <= 2
  post: _
  """
  kinds = [conc(k1, 0, 6), conc(k2, 0, 6), conc(k3, 0, 6)]
  return _run(kinds, [False, False, False], 3, conc(count, 1, 2), (k1, k2, k3, count))


def step4(k1: int, k2: int, k3: int, k4: int, i1: bool, i2: bool, i3: bool, i4: bool, mode: int) -> bool:
  """
  pre: 0 <= k1 <= 5 and 0 <= k2 <= 5 and 0 <= k3 <= 5 and 0 <= k4 <= 5 and 0 <= mode <= 3
  post: _
  """
  import os
  sl = os.environ.get('VERIF_SLICE')
  k1, mode = conc(k1, 0, 5), conc(mode, 0, 3)
  if sl is not None and (k1 * 4 + mode) % 12 != int(sl):
    return True
  kinds = [k1, conc(k2, 0, 5), conc(k3, 0, 5), conc(k4, 0, 5)]
  inc = [cbool(i1), cbool(i2), cbool(i3), cbool(i4)]
  return _run(kinds, inc, mode, 1, (k1, k2, k3, k4, i1, i2, i3, i4, mode))
