"""C03 kernel 1: random_sample.* with the numpy Generator replaced by a stub returning ARBITRARY values inside the
documented range of each call (uniform(low, high) in [low, high]; choice(seq) = some element of seq).

Encoded (real code): random_sample.sample_uniform/sample_integer/sample_discrete/sample_categorical/get_closest_element/
_sample_value/sample_parameters, SearchSpace.contains, ParameterDict, ParameterValue.
"""
import math

from engine.hsupport import NoTracing, conc, finish, reach
from vizier import pyvizier as vz
from vizier._src.algorithms.random import random_sample as rs

ASSUMPTIONS = [
    'numpy Generator stub: uniform(low, high) returns an arbitrary real in the closed interval, choice(seq) an '
    'arbitrary element; float rounding of numpy is outside the claim',
]


class _Void(Exception):
  """The stubbed draw violates the generator's documented contract: the path is outside the claim."""


class _Rng:
  """Arbitrary-but-contract-respecting generator: u is the symbolic draw; a draw outside [low, high] voids the path."""

  def __init__(self, u, idx, more=()):
    self.u, self.idx, self.void, self.calls = u, idx, False, 0
    self.draws = [u] + list(more)

  def uniform(self, low=0.0, high=1.0):
    u = self.draws[min(self.calls, len(self.draws) - 1)] if self.draws else self.u
    self.calls += 1
    if not (low <= u <= high):
      raise _Void()
    return u

  def choice(self, seq):
    self.calls += 1
    self.draws = self.draws[:self.calls - 1] + [0.0] + self.draws[self.calls - 1:]   # choice consumes no uniform draw
    if not (0 <= self.idx < len(seq)):
      raise _Void()
    return seq[self.idx]


def _finite(x):
  return x == x and x != float('inf') and x != float('-inf')


def sample_double_in_bounds(lo: float, hi: float, u: float) -> bool:
  """
  pre: True
  post: _
  """
  if not (_finite(lo) and _finite(hi) and _finite(u) and lo <= hi):
    return True
  space = vz.SearchSpace()
  space.add(vz.ParameterConfig.factory('x', bounds=(lo, hi)))
  rng = _Rng(u, 0)
  try:
    pd = rs.sample_parameters(rng, space)
  except _Void:
    return True
  v = pd.as_dict()['x']
  reach('double')
  return finish(list(pd.as_dict().keys()) == ['x'] and lo <= v <= hi and space.contains(pd), (lo, hi, u))


def sample_integer_in_bounds(lo: int, hi: int, u: float) -> bool:
  """
  pre: lo <= hi
  post: _
  """
  if not _finite(u):
    return True
  space = vz.SearchSpace()
  space.add(vz.ParameterConfig.factory('x', bounds=(lo, hi)))   # add_int_param realises its bounds in math.isclose
  rng = _Rng(u, 0)
  try:
    pd = rs.sample_parameters(rng, space)
  except _Void:
    return True
  v = pd.as_dict()['x']
  reach('integer')
  return finish(isinstance(v, int) and lo <= v <= hi and space.contains(pd), (lo, hi, u))


def sample_discrete_member(n: int, a: float, b: float, c: float, d: float, u: float) -> bool:
  """
  pre: 1 <= n <= 3
  post: _
  """
  return _discrete(n, a, b, c, d, u, (n, a, b, c, d, u))


def sample_discrete_member4(a: float, b: float, c: float, d: float, u: float) -> bool:
  """
  pre: True
  post: _
  """
  return _discrete(4, a, b, c, d, u, (a, b, c, d, u))


def _discrete(n, a, b, c, d, u, args):
  n = conc(n, 1, 4)
  for x in (a, b, c, d, u):
    if not _finite(x):
      return True
  if not (b > 0 and c > 0 and d > 0):
    return True
  vals = [a, a + b, a + b + c, a + b + c + d][:n]   # distinct, ascending by construction (gaps b, c, d > 0)
  space = vz.SearchSpace()
  space.add(vz.ParameterConfig.factory('x', feasible_values=vals))
  rng = _Rng(u, 0)
  try:
    pd = rs.sample_parameters(rng, space)
  except _Void:
    return True
  v = pd.as_dict()['x']
  member = False
  for x in vals:
    if v == x:
      member = True
  # nearest-neighbour: no feasible value is strictly closer to the draw
  nearest = True
  for x in vals:
    if abs(x - u) < abs(v - u):
      nearest = False
  reach('discrete_%d' % n)
  return finish(member and nearest and space.contains(pd), args)


def sample_categorical_member(n: int, idx: int) -> bool:
  """
  pre: 1 <= n <= 4
  post: _
  """
  n = conc(n, 1, 4)
  cats = ['a', 'b', 'c', 'd'][:n]
  with NoTracing():
    space = vz.SearchSpace()
    space.root.add_categorical_param('x', cats)
  rng = _Rng(0.0, idx)
  try:
    pd = rs.sample_parameters(rng, space)
  except _Void:
    return True
  reach('categorical_%d' % n)
  return finish(pd.as_dict()['x'] in cats and space.contains(pd), (n, idx))


def sample_parameters_all_assigned(lo: int, hi: int, flo: float, fhi: float, u: float, u2: float, u3: float,
                                   idx: int) -> bool:
  """
  pre: lo <= hi and 0 <= idx <= 2
  post: _
  """
  if not (_finite(flo) and _finite(fhi) and _finite(u) and _finite(u2) and _finite(u3) and flo <= fhi):
    return True
  space = vz.SearchSpace()
  space.add(vz.ParameterConfig.factory('i', bounds=(lo, hi)))
  space.add(vz.ParameterConfig.factory('f', bounds=(flo, fhi)))
  space.root.add_categorical_param('c', ['p', 'q', 'r'])
  space.root.add_discrete_param('d', [1.0, 2.5, 4.0])
  rng = _Rng(u, idx, (u2, u3, u3))
  try:
    pd = rs.sample_parameters(rng, space)
  except _Void:
    return True
  d = pd.as_dict()
  reach('all_assigned')
  ok = sorted(d.keys()) == ['c', 'd', 'f', 'i'] and rng.calls == 4 and space.contains(pd)
  return finish(ok, (lo, hi, flo, fhi, u, u2, u3, idx))


def closest_element(n: int, a: float, b: float, c: float, v: float) -> bool:
  """
  pre: 1 <= n <= 3
  post: _
  """
  n = conc(n, 1, 3)
  arr = [a, b, c][:n]
  for x in arr + [v]:
    if not _finite(x):
      return True
  got = rs.get_closest_element(arr, v)
  ok = False
  for x in arr:
    if got == x:
      ok = True
  for x in arr:
    ok = ok and abs(got - v) <= abs(x - v)
  reach('closest')
  return finish(ok, (n, a, b, c, v))


# ---- grid over DOUBLE axes and default/centre seeding (native numpy; configuration chosen by the solver) ---------
_DBL_BOUNDS = [(0.0, 1.0), (0.3, 0.9), (0.01, 0.1), (-1.0, 0.3), (1e160, 1e170), (1e-200, 1e-150), (5.0, 5.0)]


def grid_double_members(b: int, i: int) -> bool:
  """
  pre: 0 <= b <= 6 and 0 <= i
  post: _
  """
  b = conc(b, 0, 6)
  with NoTracing():
    from vizier._src.algorithms.designers import grid
    lo, hi = _DBL_BOUNDS[b]
    space = vz.SearchSpace()
    space.root.add_float_param('x', lo, hi)
    space.root.add_categorical_param('c', ['p', 'q'])
    d = grid.GridSearchDesigner(space)
    n = 10 if lo < hi else 1
  d._current_index = i
  try:
    s = d.suggest(1)[0]
  except (TypeError, ValueError):
    reach('grid_double_refused')       # a configuration the algorithm cannot handle is refused with an error: allowed
    return finish(True, (b, i))
  with NoTracing():
    v = s.parameters.as_dict()['x']
    ok = lo <= v <= hi and space.contains(s.parameters)
  reach('grid_double')
  return finish(ok, (b, i))


def default_seed_in_space(b: int, scale: int, has_default: bool, ilo: int, width: int) -> bool:
  """
  pre: 0 <= b <= 6 and 0 <= scale <= 2 and 0 <= width <= 3
  post: _
  """
  b, scale, has_default, width = conc(b, 0, 6), conc(scale, 0, 2), True if has_default else False, conc(width, 0, 3)
  with NoTracing():
    from vizier._src.pythia import suggest_default
    lo, hi = _DBL_BOUNDS[b]
    if scale and lo <= 0:
      return True
    st = [vz.ScaleType.LINEAR, vz.ScaleType.LOG, vz.ScaleType.REVERSE_LOG][scale]
    space = vz.SearchSpace()
    space.root.add_float_param('x', lo, hi, scale_type=st, default_value=lo if has_default else None)
    space.root.add_discrete_param('d', [1.0, 2.0, 4.0, 8.0][:width + 1])
    space.root.add_categorical_param('c', ['p', 'q', 'r'][:max(1, width)])
  space.add(vz.ParameterConfig.factory('i', bounds=(ilo, ilo + width)))
  params = suggest_default.get_default_parameters(space)
  ok = space.contains(params) and sorted(params.as_dict().keys()) == ['c', 'd', 'i', 'x']
  reach('default_seed')
  return finish(ok, (b, scale, has_default, ilo, width))
