"""C05: the SQL-file-backed service survives a crash at any point.

The servicer runs on a REAL sqlite file through real sqlalchemy (outside tracing).  Every SQL statement, commit and rollback
issued by the RPC under test is an event (sqlalchemy engine events); the crash point k is a symbolic index into that event
sequence, chosen by the solver together with the pre-state and the RPC.  At event k the database file (and its rollback
journal / WAL side files) is copied aside -- exactly what a killed process leaves on disk -- and a FRESH servicer is started
on the copy.  Post (C05): every record readable; single-resource calls are applied fully or not at all, and fully once
acknowledged; trial ids unique and legal states; clients can continue (suggest + complete work, operations terminate).

Encoded (real code): SQLDataStore.* incl. transaction handling, VizierServicer.* RPCs, constants.SQL_LOCAL_URL style engine
creation (create_engine with StaticPool / check_same_thread=False as in VizierServicer.__init__).
"""
import os
import shutil
import tempfile

from engine.hsupport import NoTracing, cbool, conc, finish, known, reach
from harness import svc
from harness.svc import ACTIVE, REQUESTED, S, STOPPING, SUCCEEDED
from vizier._src.service import study_pb2
from vizier._src.service import vizier_service_pb2 as vs

UNBLOCK = ['sqlite3.connect', 'sqlite3.connect/handle']
KF_ABANDONED = 'C05-crash-inside-suggest-leaves-unfinished-operation'
ASSUMPTIONS = [
    'crash = process kill at a SQL statement / commit / rollback boundary: the on-disk image (database file + journal side '
    'files) at that instant is what the restarted server opens; power-loss reordering inside the OS is outside the claim',
    'real sqlalchemy + real sqlite file, executed outside tracing; pre-state, RPC and crash index chosen by solver branching',
]


class _Recorder:
  """Counts engine events and snapshots the database files when the k-th event is reached."""

  def __init__(self, path, k, snapdir):
    self.path, self.k, self.snapdir, self.n, self.taken = path, k, snapdir, 0, False
    self.events = []

  def hit(self, kind):
    if self.k is not None and self.n == self.k and not self.taken:
      self.snapshot()
    self.n += 1
    self.events.append(kind)

  def snapshot(self):
    self.taken = True
    for suffix in ('', '-journal', '-wal', '-shm'):
      if os.path.exists(self.path + suffix):
        shutil.copy(self.path + suffix, os.path.join(self.snapdir, 'db.sqlite' + suffix))


def _servicer(path, pythia=None):
  return svc.new_servicer(pythia=pythia, database_url='sqlite:///' + path)


def _attach(sv, rec):
  import sqlalchemy as sqla
  eng = sv.datastore._engine
  sqla.event.listen(eng, 'before_cursor_execute', lambda *a, **k: rec.hit('x'))
  sqla.event.listen(eng, 'commit', lambda *a, **k: rec.hit('C'))
  sqla.event.listen(eng, 'rollback', lambda *a, **k: rec.hit('R'))


def _load(sv, t1, t2, ops):
  svc.add_study(sv, state=1)
  if t1:
    sv.datastore.create_trial(svc.make_trial(1, t1, client='w' if t1 in (ACTIVE, STOPPING) else '', n_meas=1,
                                             final=1.5 if t1 == SUCCEEDED else None))
  if t2:
    sv.datastore.create_trial(svc.make_trial(2, ACTIVE, client='v', n_meas=1))
  if ops:
    sv.SuggestTrials(vs.SuggestTrialsRequest(parent=S, suggestion_count=1, client_id='v'))


def _request(op, a):
  tn = svc.trial_name(1)
  if op == 0:
    r = vs.CompleteTrialRequest(name=tn, trial_infeasible=a)
    r.final_measurement.metrics.add(metric_id='m', value=7.0)
    return 'CompleteTrial', r
  if op == 1:
    r = vs.AddTrialMeasurementRequest(trial_name=tn)
    r.measurement.metrics.add(metric_id='m', value=9.0)
    return 'AddTrialMeasurement', r
  if op == 2:
    return 'StopTrial', vs.StopTrialRequest(name=tn)
  if op == 3:
    return 'DeleteTrial', vs.DeleteTrialRequest(name=tn)
  if op == 4:
    t = study_pb2.Trial()
    t.parameters.add(parameter_id='x').value.number_value = 0.75
    return 'CreateTrial', vs.CreateTrialRequest(parent=S, trial=t)
  if op == 5:
    return 'SetStudyState', vs.SetStudyStateRequest(parent=S, state=2 if a else 3)
  if op == 6:
    r = vs.UpdateMetadataRequest(name=S)
    d = r.delta.add()
    d.metadatum.key, d.metadatum.value = 'k', 'study-level'
    d = r.delta.add()
    d.trial_id = '1'
    d.metadatum.key, d.metadatum.value = 'k', 'trial-1'
    if a:
      d = r.delta.add()
      d.trial_id = '2'
      d.metadatum.key, d.metadatum.value = 'k', 'trial-2'
    return 'UpdateMetadata', r
  if op == 7:
    return 'DeleteStudy', vs.DeleteStudyRequest(name=S)
  if op == 8:
    return 'SuggestTrials', vs.SuggestTrialsRequest(parent=S, suggestion_count=2 if a else 1, client_id='w')
  if op == 9:
    return 'CheckTrialEarlyStoppingState', vs.CheckTrialEarlyStoppingStateRequest(trial_name=tn)
  if op == 10:
    return 'CreateStudy', vs.CreateStudyRequest(parent='owners/fresh' if a else svc.OWNER,
                                                study=study_pb2.Study(display_name='other', study_spec=svc.spec()))
  raise AssertionError(op)


ATOMIC = (0, 1, 2, 3, 4, 5, 6, 7)       # single-resource calls: fully applied or not at all


def _full(sv):
  """Everything stored: both studies, their trials, operations of worker w/v."""
  out = {'s': svc.abstract(sv), 'other': svc.abstract(sv, 'owners/o/studies/other')}
  ops = {}
  for c in ('w', 'v'):
    try:
      ops[c] = sorted((o.name, o.done) for o in sv.datastore.list_suggestion_operations(S, c))
    except Exception:  # noqa
      ops[c] = []
  out['ops'] = ops
  return out


def _crash(op, t1, t2, ops, a, k, args):
  with NoTracing():
    tmp = tempfile.mkdtemp(prefix='verif_c05_')
    try:
      path = os.path.join(tmp, 'db.sqlite')
      snapdir = os.path.join(tmp, 'snap')
      os.mkdir(snapdir)
      sv = _servicer(path)
      _load(sv, t1, t2, ops)
      before = _full(sv)
      rec = _Recorder(path, k, snapdir)
      _attach(sv, rec)
      method, req = _request(op, a)
      resp, exc = svc.call(getattr(sv, method), req)
      n_events = rec.n
      if k > n_events:
        return True                      # no such crash point for this call
      if k == n_events:
        rec.snapshot()                   # crash right after the call was acknowledged
      after = _full(sv)
      sv.datastore._connection.close()
      if not rec.taken:
        return True
      # ---- restart on the crash image
      sv2 = _servicer(os.path.join(snapdir, 'db.sqlite'))
      got = _full(sv2)                   # (1) every stored record is readable
      ok = True
      if op in ATOMIC:
        ok = ok and (got == before or got == after)           # (2) fully applied or not at all
      if k == n_events:
        ok = ok and got == after                               # (3) acknowledged => durable
      for name in ('s', 'other'):
        ok = ok and svc.lifecycle_ok(before[name], got[name])  # (4) legal states, unique ids, nothing torn
      if op == 7 and got['s'] is None:
        # delete-study TOGETHER WITH ITS TRIALS: a study re-created under the same name must start empty
        st, e = svc.call(sv2.CreateStudy, vs.CreateStudyRequest(parent=svc.OWNER, study=study_pb2.Study(
            display_name='s', study_spec=svc.spec())))
        again = _full(sv2)
        ok = ok and e is None and again['s'] is not None and again['s']['trials'] == {} and again['ops'] == {'w': [], 'v': []}
        got = again
      if op == 10:
        # a study that can be fetched is listed under its owner; the client retries its CreateStudy and ends up with
        # exactly one such study
        name = req.parent + '/studies/other'
        _, e1 = svc.call(sv2.GetStudy, vs.GetStudyRequest(name=name))
        lst, e2 = svc.call(sv2.ListStudies, vs.ListStudiesRequest(parent=req.parent))
        listed = e2 is None and name in [s_.name for s_ in lst.studies]
        ok = ok and ((e1 is None) == listed)
        again, e3 = svc.call(sv2.CreateStudy, _request(op, a)[1])      # (a fresh request: the first call filled in study.name)
        ok = ok and e3 is None and again.name == name
        lst, e2 = svc.call(sv2.ListStudies, vs.ListStudiesRequest(parent=req.parent))
        ok = ok and e2 is None and [s_.name for s_ in lst.studies].count(name) == 1
      tag = '%s@%d/%d:%s' % (method, k, n_events, ''.join(rec.events))
      if not ok:
        reach('bad:' + method)
        return finish(False, args, obs=[tag, 'after-restart state'])
      # (5) clients can continue on the study
      if got['s'] is not None and got['s']['state'] in svc.MUTABLE_STUDY:
        unfinished = [n for n, done in got['ops']['w'] if not done]
        if unfinished and op == 8 and known(KF_ABANDONED):
          # open finding: worker w is answered from the abandoned operation; everybody else must be able to continue
          o, e = svc.call(sv2.SuggestTrials, vs.SuggestTrialsRequest(parent=S, suggestion_count=1, client_id='z'))
          okz = e is None and o.done and not o.HasField('error')
          okz = okz and len(vs.SuggestTrialsResponse.FromString(o.response.value).trials) == 1
          okz = okz and svc.lifecycle_ok(got['s'], _full(sv2)['s'])
          # ... including a worker that already has (finished) operations of its own
          if before['ops']['v'] and all(done for _, done in before['ops']['v']):
            o, e = svc.call(sv2.SuggestTrials, vs.SuggestTrialsRequest(parent=S, suggestion_count=1, client_id='v'))
            okz = okz and e is None and o.done and not o.HasField('error')
            okz = okz and len(vs.SuggestTrialsResponse.FromString(o.response.value).trials) == 1
          sv2.datastore._connection.close()
          reach('known:' + method)
          return finish(okz, args, obs=[tag, 'abandoned op (known finding); other worker continues'])
        o, e = svc.call(sv2.SuggestTrials, vs.SuggestTrialsRequest(parent=S, suggestion_count=1, client_id='w'))
        ok = ok and e is None and o.done and not o.HasField('error')
        mid = _full(sv2)
        ok = ok and svc.lifecycle_ok(got['s'], mid['s'])
        if ok:
          tr = vs.SuggestTrialsResponse.FromString(o.response.value).trials
          ok = len(tr) == 1
          if ok:
            creq = vs.CompleteTrialRequest(name=tr[0].name)
            creq.final_measurement.metrics.add(metric_id='m', value=1.0)
            t, e = svc.call(sv2.CompleteTrial, creq)
            ok = e is None and t.state == SUCCEEDED
        final = _full(sv2)
        ok = ok and svc.lifecycle_ok(mid['s'], final['s'])
        ids = sorted(final['s']['trials']) if final['s'] else []
        ok = ok and len(ids) == len(set(ids))
      sv2.datastore._connection.close()
      reach(method)
      return finish(ok, args, obs=[tag, 'continue'])
    finally:
      shutil.rmtree(tmp, ignore_errors=True)


def crash_atomic(op: int, t1: int, t2: bool, a: bool, k: int) -> bool:
  """
  pre: 0 <= op <= 7 and 0 <= t1 <= 4 and 0 <= k <= 14
  post: _
  """
  op = conc(op, 0, 7)
  sl = os.environ.get('VERIF_SLICE')
  if sl is not None and op % 4 != int(sl):
    return True
  t1, t2, a, k = conc(t1, 0, 4), cbool(t2), cbool(a), conc(k, 0, 14)
  if op in (1, 2, 3, 4) and a:
    return True
  # (for DeleteStudy `a` decides whether the study has suggestion operations that must go with it)
  return _crash(op, t1, 1 if t2 else 0, 1 if (op == 7 and a) else 0, a, k, (op, t1, t2, a, k))


def crash_multi(op: int, t1: int, t2: bool, ops: bool, a: bool, k: int) -> bool:
  """
  pre: 8 <= op <= 10 and 0 <= t1 <= 4 and 0 <= k <= 24
  post: _
  """
  op, a = conc(op, 8, 10), cbool(a)
  if op == 9 and a:
    return True                 # (`a`: SuggestTrials count 2 / CreateStudy for an owner that does not exist yet)
  sl = os.environ.get('VERIF_SLICE')
  if sl is not None and (op - 8) * 2 + (1 if a else 0) != int(sl):
    return True
  t1, t2, ops, k = conc(t1, 0, 4), cbool(t2), cbool(ops), conc(k, 0, 24)
  return _crash(op, t1, 1 if t2 else 0, 1 if ops else 0, a, k, (op, t1, t2, ops, a, k))
