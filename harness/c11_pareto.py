"""C11: every Pareto routine agrees with the definition of non-dominance, for every order type of the point set.

Order-type partition: the coordinates are symbolic mathematical integers (unbounded).  All pairwise three-way
comparisons per coordinate and the brute-force oracle are evaluated on the SYMBOLIC values, so each explored path is one
order type (a weak order per coordinate); z3 prunes the inconsistent comparison outcomes and certifies exhaustion.  The real
numpy/JAX routine then runs (outside tracing) on the canonical dense-rank representative of that order type and must
agree with the oracle.  Stated assumption: the routines depend on their input only through order comparisons.
"""
import os

import numpy as np
from engine.hsupport import NoTracing, conc, finish, known, reach
from vizier._src.pyvizier.multimetric import pareto_optimal as po

ASSUMPTIONS = [
    'comparison-only data dependence of the Pareto routines: one representative decides its whole order type',
    'representatives are dense ranks mapped affinely (rank*1.5-2): non-integral, partly negative, exact in float32',
]
KF_FAST_TIES = 'C11-fast-pareto-ties-in-first-coordinate'


def _cmp(a, b):
  if a < b:
    return -1
  if a == b:
    return 0
  return 1


def _ranks(vals):
  """Dense ranks of symbolic values; forks on every pairwise comparison (so the result is concrete)."""
  n = len(vals)
  c = [[0] * n for _ in range(n)]
  for i in range(n):
    for j in range(i + 1, n):
      c[i][j] = _cmp(vals[i], vals[j])
      c[j][i] = -c[i][j]
  ranks = []
  for i in range(n):
    reps = []
    for j in range(n):
      if c[j][i] < 0 and not any(c[j][r] == 0 for r in reps):
        reps.append(j)
    ranks.append(len(reps))
  return ranks


def _oracle_optimal(cols):
  """cols[d][i] symbolic; point i optimal iff no j with j >= i componentwise and j != i somewhere."""
  n = len(cols[0])
  out = []
  for i in range(n):
    dominated = False
    for j in range(n):
      if j == i:
        continue
      ge = True
      gt = False
      for col in cols:
        if col[j] < col[i]:
          ge = False
        if col[j] > col[i]:
          gt = True
      if ge and gt:
        dominated = True
    out.append(not dominated)
  return out


def _oracle_rank(cols):
  n = len(cols[0])
  out = []
  for i in range(n):
    k = 0
    for j in range(n):
      if j == i:
        continue
      ge = all(col[j] >= col[i] for col in cols)
      gt = any(col[j] > col[i] for col in cols)
      if ge and gt:
        k += 1
    out.append(k)
  return out


def _rep(rank_cols):
  with NoTracing():
    return np.array(list(zip(*rank_cols)), dtype=float) * 1.5 - 2.0


_ALGOS = {}


def _algo(name):
  with NoTracing():
    if name not in _ALGOS:
      if name == 'naive':
        _ALGOS[name] = po.NaiveParetoOptimalAlgorithm()
      elif name.startswith('fastjax'):
        from vizier._src.jax import xla_pareto
        _ALGOS[name] = po.FastParetoOptimalAlgorithm(xla_pareto.JaxParetoOptimalAlgorithm(),
                                                     recursive_threshold=int(name[7:]))
      elif name.startswith('fast'):
        _ALGOS[name] = po.FastParetoOptimalAlgorithm(recursive_threshold=int(name[4:]))
      elif name == 'jax':
        from vizier._src.jax import xla_pareto
        _ALGOS[name] = xla_pareto.JaxParetoOptimalAlgorithm()
    return _ALGOS[name]


def _run_optimal(name, arr):
  with NoTracing():
    if name == 'frontier2':
      from vizier._src.jax import xla_pareto
      return [bool(x) for x in xla_pareto.is_frontier(arr, num_shards=2)]
    if name == 'frontier3':
      from vizier._src.jax import xla_pareto
      return [bool(x) for x in xla_pareto.is_frontier(arr, num_shards=3)]
    if name == 'nsga2rank':
      from vizier._src.algorithms.evolution import nsga2
      return [int(x) for x in nsga2._pareto_rank(arr)]
    return [bool(x) for x in _algo(name).is_pareto_optimal(arr)]


def _has_first_coord_tie(cols):
  c0 = cols[0]
  for i in range(len(c0)):
    for j in range(i + 1, len(c0)):
      if c0[i] == c0[j]:
        return True
  return False


def _check_points(cols, args):
  name = os.environ.get('VERIF_PARETO', 'naive')
  if name.startswith('fast') and known(KF_FAST_TIES) and _has_first_coord_tie(cols):
    return True
  rank_cols = [_ranks(col) for col in cols]
  if name == 'nsga2rank':
    want = _oracle_rank(cols)
  else:
    want = _oracle_optimal(cols)
  want = [bool(w) if isinstance(w, bool) or name != 'nsga2rank' else w for w in want]
  got = _run_optimal(name, _rep(rank_cols))
  with NoTracing():
    want = [int(w) if name == 'nsga2rank' else bool(w) for w in want]
    ok = got == want
    # translation: an order type says nothing about signs, so it also stands for the same configuration moved into the
    # negative orthant and across the origin (e.g. sign-flipped MINIMIZE metrics are all <= 0)
    if ok:
      base = _rep(rank_cols)
      span = float(base.max() - base.min()) + 1.0 if base.size else 1.0
      for shift in (-(span + 1.0), -span / 2.0, -float(base.max()) if base.size else 0.0):
        if _run_optimal(name, base + shift) != want:
          ok = False
          reach('translated_variant_failed')
          break
    # +-inf: an infinite coordinate is just the top / bottom element of that coordinate's order, so every order type
    # also stands for the point sets in which the largest values of a coordinate are +inf and/or the smallest are -inf.
    if ok and os.environ.get('VERIF_PARETO_INF', '1') == '1':
      base = _rep(rank_cols)
      d = base.shape[1]
      for mask in range(1, 3 ** d):
        arr = base.copy()
        m = mask
        for c in range(d):
          kind = m % 3
          m //= 3
          col = base[:, c]
          if kind == 1:
            arr[col == col.max(), c] = np.inf
          elif kind == 2 and col.min() < col.max():
            arr[col == col.min(), c] = -np.inf
        if _run_optimal(name, arr) != want:
          ok = False
          reach('inf_variant_failed')
          break
  reach(name)
  return finish(ok, args, obs=name)


def points_3x2(x0: int, y0: int, x1: int, y1: int, x2: int, y2: int) -> bool:
  """
  pre: True
  post: _
  """
  return _check_points([[x0, x1, x2], [y0, y1, y2]], (x0, y0, x1, y1, x2, y2))


def points_4x2(x0: int, y0: int, x1: int, y1: int, x2: int, y2: int, x3: int, y3: int) -> bool:
  """
  pre: True
  post: _
  """
  sl = os.environ.get('VERIF_SLICE')
  if sl is not None:
    # slice by the order type of (x0, x1, y0): 3*3 = 9 slices
    k = (_cmp(x0, x1) + 1) * 3 + (_cmp(y0, y1) + 1)
    if k != int(sl):
      return True
  return _check_points([[x0, x1, x2, x3], [y0, y1, y2, y3]], (x0, y0, x1, y1, x2, y2, x3, y3))


def points_3x3(x0: int, y0: int, z0: int, x1: int, y1: int, z1: int, x2: int, y2: int, z2: int) -> bool:
  """
  pre: True
  post: _
  """
  return _check_points([[x0, x1, x2], [y0, y1, y2], [z0, z1, z2]], (x0, y0, z0, x1, y1, z1, x2, y2, z2))


def points_3x1(x0: int, x1: int, x2: int) -> bool:
  """
  pre: True
  post: _
  """
  return _check_points([[x0, x1, x2]], (x0, x1, x2))


def against_1v2(px: int, py: int, ax: int, ay: int, bx: int, by: int, strict: bool) -> bool:
  """
  pre: True
  post: _
  """
  return _check_against([[px], [py]], [[ax, bx], [ay, by]], strict, (px, py, ax, ay, bx, by, strict))


def against_2v1(px: int, py: int, qx: int, qy: int, ax: int, ay: int, strict: bool) -> bool:
  """
  pre: True
  post: _
  """
  return _check_against([[px, qx], [py, qy]], [[ax], [ay]], strict, (px, py, qx, qy, ax, ay, strict))


def against_4v1_distinct_x(y0: int, y1: int, y2: int, y3: int, ax: int, ay: int, strict: bool) -> bool:
  """
  pre: True
  post: _
  """
  # four points with pairwise distinct first coordinates (the smallest instance on which the divide-and-conquer
  # is_pareto_optimal_against really splits), second coordinates and the `against` point arbitrary
  xs = [0, 10, 20, 30]
  sl = os.environ.get('VERIF_SLICE')
  if sl is not None and (2 if strict else 0) + (1 if ax < 15 else 0) != int(sl):
    return True
  return _check_against([xs, [y0, y1, y2, y3]], [[ax], [ay]], strict, (y0, y1, y2, y3, ax, ay, strict))


def against_2v2(px: int, py: int, qx: int, qy: int, ax: int, ay: int, bx: int, by: int, strict: bool) -> bool:
  """
  pre: True
  post: _
  """
  return _check_against([[px, qx], [py, qy]], [[ax, bx], [ay, by]], strict, (px, py, qx, qy, ax, ay, bx, by, strict))


def _check_against(pcols, acols, strict, args):
  """is_pareto_optimal_against: point optimal iff no `against` point dominates it (strict: equal points do not count)."""
  name = os.environ.get('VERIF_PARETO', 'naive')
  strict = True if strict else False
  m, k = len(pcols[0]), len(acols[0])
  want = []
  for i in range(m):
    bad = False
    for j in range(k):
      ge = all(ac[j] >= pc[i] for pc, ac in zip(pcols, acols))
      gt = any(ac[j] > pc[i] for pc, ac in zip(pcols, acols))
      if ge and (gt or not strict):
        bad = True
    want.append(not bad)
  rank_cols = [_ranks(pc + ac) for pc, ac in zip(pcols, acols)]
  with NoTracing():
    want = [bool(w) for w in want]
    arr = np.array(list(zip(*rank_cols)), dtype=float) * 1.5 - 2.0
    pts, ag = arr[:m], arr[m:]
    got = [bool(x) for x in _algo(name).is_pareto_optimal_against(pts, ag, strict=strict)]
  reach(name + ('_strict' if strict else '_nonstrict'))
  return finish(got == want, args, obs=name)


# ---- service level: VizierServicer.ListOptimalTrials and InRamPolicySupporter.GetBestTrials ---------------------
KF_NAN = 'C11-listoptimal-reports-nan-objective'
KF_BEST_TIES = 'C11-getbesttrials-single-objective-returns-one-of-tied'


def _service_study(goal2_min, single):
  from harness import svc
  from vizier.service import pyvizier as vz
  sc = vz.StudyConfig(algorithm='RANDOM_SEARCH')
  sc.search_space.root.add_float_param('x', 0.0, 1.0)
  sc.metric_information.append(vz.MetricInformation('m1', goal=vz.ObjectiveMetricGoal.MAXIMIZE))
  if not single:
    sc.metric_information.append(vz.MetricInformation(
        'm2', goal=vz.ObjectiveMetricGoal.MINIMIZE if goal2_min else vz.ObjectiveMetricGoal.MAXIMIZE))
  return sc


def _list_optimal(kinds, vals1, vals2, goal2_min, single, nan0, args):
  """kinds[i]: 0 SUCCEEDED with all metrics, 1 SUCCEEDED missing the last metric, 2 INFEASIBLE with all metrics,
  3 ACTIVE with an intermediate measurement carrying all metrics."""
  from harness import svc
  from vizier._src.service import study_pb2
  from vizier._src.service import vizier_service_pb2 as vs
  n = len(kinds)
  # oracle on the symbolic values (sign flipped for MINIMIZE)
  cand = [i for i in range(n) if kinds[i] == 0 and not (nan0 and i == 0)]
  if single:
    cols = [[vals1[i] for i in cand]]
  else:
    cols = [[vals1[i] for i in cand], [(-vals2[i] if goal2_min else vals2[i]) for i in cand]]
  opt = _oracle_optimal(cols) if cand else []
  want = sorted(cand[k] + 1 for k in range(len(cand)) if opt[k])
  r1 = _ranks(vals1)
  r2 = _ranks(vals2)
  if nan0 and known(KF_NAN):
    return True
  with NoTracing():
   ok_all = True
   for close in (False, True):       # second pass: objective values that are distinct doubles but collide in float32
    sv = svc.new_servicer()
    spec = _service_study(goal2_min, single).to_proto()
    sv.datastore.create_study(study_pb2.Study(name=svc.S, display_name='s', study_spec=spec, state=1))
    for i in range(n):
      v1 = float('nan') if (nan0 and i == 0) else ((0.25 + r1[i] * 1e-9) if close else r1[i] * 1.5 - 2.0)
      v2 = (100000001.0 + r2[i]) if close else r2[i] * 1.5 - 2.0
      state = {0: svc.SUCCEEDED, 1: svc.SUCCEEDED, 2: svc.INFEASIBLE, 3: svc.ACTIVE}[kinds[i]]
      t = study_pb2.Trial(name=svc.trial_name(i + 1), id=str(i + 1), state=state)
      t.parameters.add(parameter_id='x').value.number_value = 0.5
      target = t.measurements.add() if kinds[i] == 3 else t.final_measurement
      target.metrics.add(metric_id='m1', value=v1)
      if not single and kinds[i] != 1:
        target.metrics.add(metric_id='m2', value=v2)
      if single and kinds[i] == 1:
        del target.metrics[:]
        target.metrics.add(metric_id='other', value=v1)
      if close:
        # an additional metric the study does not configure (here NaN on one trial) has no say in optimality
        target.metrics.add(metric_id='zz_unconfigured', value=float('nan') if i == 1 else 3.0)
      sv.datastore.create_trial(t)
    resp = sv.ListOptimalTrials(vs.ListOptimalTrialsRequest(parent=svc.S))
    got = sorted(int(t.id) for t in resp.optimal_trials)
    ok_all = ok_all and got == want
  reach('listoptimal')
  return finish(ok_all, args, obs=[got, want])


def list_optimal_2metrics(k0: int, k1: int, goal2_min: bool, x0: int, y0: int, x1: int, y1: int, x2: int, y2: int) -> bool:
  """
  pre: 0 <= k0 <= 3 and 0 <= k1 <= 2
  post: _
  """
  k0, k1 = conc(k0, 0, 3), conc(k1, 0, 2)
  g = True if goal2_min else False
  return _list_optimal([k0, k1, 0], [x0, x1, x2], [y0, y1, y2], g, False, False, (k0, k1, g, x0, y0, x1, y1, x2, y2))


def list_optimal_single(k0: int, k1: int, x0: int, x1: int, x2: int) -> bool:
  """
  pre: 0 <= k0 <= 3 and 0 <= k1 <= 3
  post: _
  """
  k0, k1 = conc(k0, 0, 3), conc(k1, 0, 3)
  return _list_optimal([k0, k1, 0], [x0, x1, x2], [0, 0, 0], False, True, False, (k0, k1, x0, x1, x2))


def list_optimal_nan(goal2_min: bool, y0: int, x1: int, y1: int, x2: int, y2: int) -> bool:
  """
  pre: True
  post: _
  """
  g = True if goal2_min else False
  return _list_optimal([0, 0, 0], [0, x1, x2], [y0, y1, y2], g, False, True, (g, y0, x1, y1, x2, y2))


def best_trials_multi(k0: int, goal2_min: bool, x0: int, y0: int, x1: int, y1: int, x2: int, y2: int) -> bool:
  """
  pre: 0 <= k0 <= 2
  post: _
  """
  k0 = conc(k0, 0, 2)
  g = True if goal2_min else False
  return _best_trials([k0, 0, 0], [x0, x1, x2], [y0, y1, y2], g, False, (k0, g, x0, y0, x1, y1, x2, y2))


def best_trials_single(k0: int, x0: int, x1: int, x2: int) -> bool:
  """
  pre: 0 <= k0 <= 2
  post: _
  """
  k0 = conc(k0, 0, 2)
  return _best_trials([k0, 0, 0], [x0, x1, x2], [0, 0, 0], False, True, (k0, x0, x1, x2))


def _best_trials(kinds, vals1, vals2, goal2_min, single, args):
  """kinds[i]: 0 completed feasible, 1 completed infeasible (with measurement), 2 ACTIVE."""
  from vizier import pyvizier as vz
  from vizier._src.pythia import local_policy_supporters as lps
  n = len(kinds)
  cand = [i for i in range(n) if kinds[i] == 0]
  if single:
    cols = [[vals1[i] for i in cand]]
  else:
    cols = [[vals1[i] for i in cand], [(-vals2[i] if goal2_min else vals2[i]) for i in cand]]
  opt = _oracle_optimal(cols) if cand else []
  want = sorted(cand[k] + 1 for k in range(len(cand)) if opt[k])
  r1, r2 = _ranks(vals1), _ranks(vals2)
  if single and len(want) > 1 and known(KF_BEST_TIES):
    return True
  with NoTracing():
    problem = vz.ProblemStatement()
    problem.search_space.root.add_float_param('x', 0.0, 1.0)
    problem.metric_information.append(vz.MetricInformation('m1', goal=vz.ObjectiveMetricGoal.MAXIMIZE))
    if not single:
      problem.metric_information.append(vz.MetricInformation(
          'm2', goal=vz.ObjectiveMetricGoal.MINIMIZE if goal2_min else vz.ObjectiveMetricGoal.MAXIMIZE))
    sup = lps.InRamPolicySupporter(problem)
    trials = []
    for i in range(n):
      t = vz.Trial(parameters={'x': 0.5})
      m = {'m1': r1[i] * 1.5 - 2.0}
      if not single:
        m['m2'] = r2[i] * 1.5 - 2.0
      if kinds[i] == 0:
        t.complete(vz.Measurement(m))
      elif kinds[i] == 1:
        t.complete(vz.Measurement(m), infeasibility_reason='bad')
      trials.append(t)
    sup.AddTrials(trials)
    if not [k for k in kinds if k != 2]:
      return True       # no completed trial at all: GetBestTrials on nothing is not part of the claim
    got = sorted(t.id for t in sup.GetBestTrials())
    ok = got == want
    # the study goes on: the still-ACTIVE trials are completed IN PLACE (the supporter holds them by reference, as the
    # benchmark runner does) and the question is asked again -- the answer must reflect the new history
    if ok and 2 in kinds and not (single and known(KF_BEST_TIES)):
      for i in range(n):
        if kinds[i] == 2:
          m = {'m1': r1[i] * 1.5 - 2.0}
          if not single:
            m['m2'] = r2[i] * 1.5 - 2.0
          trials[i].complete(vz.Measurement(m))
      cand2 = [i for i in range(n) if kinds[i] in (0, 2)]
      cols2 = [[vals1[i] for i in cand2]] if single else \
          [[vals1[i] for i in cand2], [(-vals2[i] if goal2_min else vals2[i]) for i in cand2]]
      opt2 = _oracle_optimal(cols2)
      want2 = sorted(cand2[k] + 1 for k in range(len(cand2)) if opt2[k])
      got2 = sorted(t.id for t in sup.GetBestTrials())
      if not (single and len(want2) > 1 and known(KF_BEST_TIES)):
        ok = got2 == want2
        got, want = got2, want2
  reach('besttrials_single' if single else 'besttrials_multi')
  return finish(ok, args, obs=[got, want])


def best_trials_safety(sa: int, sb: int, order: bool, x0: int, x1: int, x2: int) -> bool:
  """
  pre: True
  post: _
  """
  from vizier import pyvizier as vz
  from vizier._src.pythia import local_policy_supporters as lps
  # trial 0 reports two safety metrics: s1 (safe iff >= 0) and s2 (safe iff <= 0); trials 1, 2 are safe
  safe0 = (sa >= 0) and (sb <= 0)
  cand = [0, 1, 2] if safe0 else [1, 2]
  vals = [x0, x1, x2]
  opt = _oracle_optimal([[vals[i] for i in cand]])
  want = sorted(cand[k] + 1 for k in range(len(cand)) if opt[k])
  r = _ranks(vals)
  ca, cb = _cmp(sa, 0), _cmp(sb, 0)
  order = True if order else False
  with NoTracing():
    problem = vz.ProblemStatement()
    problem.search_space.root.add_float_param('x', 0.0, 1.0)
    problem.metric_information.append(vz.MetricInformation('m1', goal=vz.ObjectiveMetricGoal.MAXIMIZE))
    safeties = [vz.MetricInformation('s1', goal=vz.ObjectiveMetricGoal.MAXIMIZE, safety_threshold=0.0),
                vz.MetricInformation('s2', goal=vz.ObjectiveMetricGoal.MINIMIZE, safety_threshold=0.0)]
    for mi in (reversed(safeties) if order else safeties):     # the order in which the safety metrics are configured
      problem.metric_information.append(mi)
    sup = lps.InRamPolicySupporter(problem)
    trials = []
    for i in range(3):
      t = vz.Trial(parameters={'x': 0.5})
      m = {'m1': r[i] * 1.5 - 2.0, 's1': float(ca) if i == 0 else 1.0, 's2': float(cb) if i == 0 else -1.0}
      t.complete(vz.Measurement(m))
      trials.append(t)
    sup.AddTrials(trials)
    got = sorted(t.id for t in sup.GetBestTrials())
  reach('besttrials_safety')
  return finish(got == want, (sa, sb, order, x0, x1, x2), obs=[got, want])
