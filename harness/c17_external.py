"""C17: parameter values read back from a trial are the stored values in the declared external types.

Encoded (real code): oss.StudyConfig.trial_parameters / _pytrial_parameters / _trial_to_external_values,
ParameterValue.cast/as_*, SearchSpaceSelector.parse_multi_dimensional_parameter_name, TrialConverter.to_proto/from_proto
(the wire hop: every number becomes a double, booleans become strings) -- on the symproto back end, values symbolic.
"""
from engine.hsupport import NoTracing, cbool, conc, finish, reach
from env import bootstrap
from vizier._src.pyvizier.oss import proto_converters as pc
from vizier.service import pyvizier as vz

bootstrap.post_import()
from engine import npshim  # noqa: E402
from vizier._src.pyvizier.shared import trial as _trial_mod  # noqa: E402
npshim.install(_trial_mod)

ASSUMPTIONS = [
    'protobuf runtime = env/symproto model',
    'the Python type in which an INTEGER-typed (not DISCRETE) parameter is presented is a don\'t-care (the property lists '
    'boolean, integer-valued discrete, other discrete/continuous, categorical and indexed parameters)',
]
_SC = None
_SC_WIRE = None


def _config(wire=False):
  """wire=True: the config as a client sees it, i.e. read back from its protocol-buffer form."""
  global _SC, _SC_WIRE
  if wire:
    with NoTracing():
      if _SC_WIRE is None:
        proto = _config().to_proto()
        # as another client would write it: ONE conditional spec listing both parent values of `layers`
        for p in proto.parameters:
          if p.parameter_id == 'model':
            specs = [c for c in p.conditional_parameter_specs]
            layer_specs = [c for c in specs if c.parameter_spec.parameter_id == 'layers']
            merged = type(layer_specs[0])()
            merged.CopyFrom(layer_specs[0])
            del merged.parent_categorical_values.values[:]
            merged.parent_categorical_values.values.extend(['dnn', 'tree'])
            others = [c for c in specs if c.parameter_spec.parameter_id != 'layers']
            del p.conditional_parameter_specs[:]
            p.conditional_parameter_specs.extend([merged] + others)
        _SC_WIRE = vz.StudyConfig.from_proto(proto)
      return _SC_WIRE
  with NoTracing():
    if _SC is None:
      sc = vz.StudyConfig(algorithm='RANDOM_SEARCH')
      r = sc.search_space.root
      r.add_float_param('f', -1.0, 1.0)
      r.add_int_param('i', 0, 5)
      r.add_discrete_param('d', [-7, 2, 4])          # integer-valued, one negative value
      r.add_discrete_param('df', [0.5, 1.5])
      r.add_categorical_param('c', ['a', 'b'])
      r.add_bool_param('b')
      r.add_int_param('v', 0, 3, index=0)
      r.add_int_param('v', 0, 3, index=1)
      r.add_int_param('v', 0, 3, index=2)
      for k in range(12):
        r.add_int_param('w', 0, 20, index=k)
      m = r.add_categorical_param('model', ['dnn', 'lin', 'tree'])
      m.select_values(['dnn', 'tree']).add_int_param('layers', 1, 3)
      m.select_values(['lin']).add_float_param('l2', 0.0, 1.0)
      sc.metric_information.append(vz.MetricInformation('m', goal=vz.ObjectiveMetricGoal.MAXIMIZE))
      _SC = sc
    return _SC


def flat_values(fval: float, ival: int, d: int, df: int, c: int, b: bool) -> bool:
  """
  pre: 0 <= ival <= 5 and 0 <= d <= 2 and 0 <= df <= 1 and 0 <= c <= 1
  post: _
  """
  if not (-1.0 <= fval <= 1.0):
    return True
  d, df, c, b = conc(d, 0, 2), conc(df, 0, 1), conc(c, 0, 1), cbool(b)
  sc = _config()
  dval, dfval, cval = [-7, 2, 4][d], [0.5, 1.5][df], ['a', 'b'][c]
  t = vz.Trial(id=1, parameters={'f': fval, 'i': ival, 'd': dval, 'df': dfval, 'c': cval, 'b': 'True' if b else 'False'})
  got = sc.trial_parameters(pc.TrialConverter.to_proto(t))
  reach('flat')
  ok = sorted(got.keys()) == ['b', 'c', 'd', 'df', 'f', 'i']
  ok = ok and got['f'] == fval and isinstance(got['f'], float)
  ok = ok and got['i'] == ival
  ok = ok and got['d'] == dval and isinstance(got['d'], int) and not isinstance(got['d'], bool)
  ok = ok and got['df'] == dfval and isinstance(got['df'], float)
  ok = ok and got['c'] == cval and isinstance(got['c'], str)
  ok = ok and (got['b'] is b)
  return finish(ok, (fval, ival, d, df, c, b))


def indexed_values(v0: int, v1: int, v2: int, present: int, order: int) -> bool:
  """
  pre: 0 <= v0 <= 3 and 0 <= v1 <= 3 and 0 <= v2 <= 3 and 1 <= present <= 7 and 0 <= order <= 1
  post: _
  """
  present, order = conc(present, 1, 7), conc(order, 0, 1)
  sc = _config()
  vals = [v0, v1, v2]
  idx = [k for k in range(3) if present & (1 << k)]
  if order:
    idx = list(reversed(idx))
  params = {'v[%d]' % k: vals[k] for k in idx}          # insertion order = idx order
  params['c'] = 'a'
  got = sc.trial_parameters(pc.TrialConverter.to_proto(vz.Trial(id=2, parameters=params)))
  reach('indexed')
  ok = sorted(got.keys()) == ['c', 'v'] and isinstance(got['v'], list)
  ok = ok and got['v'] == [vals[k] for k in sorted(idx)]     # grouped into one list in index order
  return finish(ok, (v0, v1, v2, present, order))


def indexed_many(a: int, b: int, order: int) -> bool:
  """
  pre: 0 <= a <= 20 and 0 <= b <= 20 and 0 <= order <= 2
  post: _
  """
  order = conc(order, 0, 2)
  sc = _config()
  vals = [k for k in range(12)]
  vals[2], vals[10] = a, b
  idx = list(range(12))
  if order == 1:
    idx = list(reversed(idx))
  elif order == 2:
    idx = idx[1::2] + idx[0::2]
  params = {'w[%d]' % k: vals[k] for k in idx}
  got = sc.trial_parameters(pc.TrialConverter.to_proto(vz.Trial(id=4, parameters=params)))
  reach('indexed_many')
  return finish(sorted(got.keys()) == ['w'] and got['w'] == vals, (a, b, order))     # index order, not string order


def conditional_values(model: int, with_layers: bool, with_l2: bool, unknown: bool, layers: int, l2: float, wire: bool) -> bool:
  """
  pre: 0 <= model <= 2 and 1 <= layers <= 3
  post: _
  """
  if not (0.0 <= l2 <= 1.0):
    return True
  model, with_layers, with_l2, unknown = conc(model, 0, 2), cbool(with_layers), cbool(with_l2), cbool(unknown)
  sc = _config(cbool(wire))
  mval = ['dnn', 'lin', 'tree'][model]
  params = {'model': mval, 'f': 0.25}
  if with_layers:
    params['layers'] = layers
  if with_l2:
    params['l2'] = l2
  if unknown:
    params['zzz'] = 1
  proto = pc.TrialConverter.to_proto(vz.Trial(id=3, parameters=params))
  layers_active = mval in ('dnn', 'tree')
  must_fail = unknown or (with_layers and not layers_active) or (with_l2 and layers_active)
  try:
    got = sc.trial_parameters(proto)
    raised = False
  except ValueError:
    got, raised = None, True
  reach('conditional_fail' if must_fail else 'conditional_ok')
  if must_fail:
    return finish(raised, (model, with_layers, with_l2, unknown, layers, l2, wire))   # an error, never silent truncation
  ok = not raised and got['model'] == mval and got['f'] == 0.25
  want_keys = ['f', 'model'] + (['layers'] if with_layers else []) + (['l2'] if with_l2 else [])
  ok = ok and sorted(got.keys()) == sorted(want_keys)
  if with_layers:
    ok = ok and got['layers'] == layers
  if with_l2:
    ok = ok and got['l2'] == l2 and isinstance(got['l2'], float)
  return finish(ok, (model, with_layers, with_l2, unknown, layers, l2, wire))


_SC2 = None


def _config2():
  """Conditional parents of the other kinds: boolean, integer-valued discrete, integer."""
  global _SC2
  with NoTracing():
    if _SC2 is None:
      sc = vz.StudyConfig(algorithm='RANDOM_SEARCH')
      r = sc.search_space.root
      bn = r.add_bool_param('use_bn')
      bn.select_values(['True']).add_float_param('bn_momentum', 0.5, 1.0)
      bn.select_values(['False']).add_discrete_param('groups', [1, 2, 4, 8])
      st = r.add_discrete_param('stages', [1, 2, 4])
      st.select_values([2, 4]).add_categorical_param('merge', ['add', 'cat'])
      dp = r.add_int_param('depth', 1, 3)
      dp.select_values([3]).add_float_param('drop', 0.0, 1.0)
      sc.metric_information.append(vz.MetricInformation('m', goal=vz.ObjectiveMetricGoal.MAXIMIZE))
      _SC2 = vz.StudyConfig.from_proto(sc.to_proto())       # as a client reads it back
    return _SC2


def conditional_other_parents(bn: bool, stages: int, depth: int, momentum: float, drop: float, groups: int,
                              wrong: int) -> bool:
  """
  pre: 0 <= stages <= 2 and 1 <= depth <= 3 and 0 <= groups <= 3 and 0 <= wrong <= 3
  post: _
  """
  if not (0.5 <= momentum <= 1.0 and 0.0 <= drop <= 1.0):
    return True
  args = (bn, stages, depth, momentum, drop, groups, wrong)
  bn, stages, depth, groups, wrong = cbool(bn), [1, 2, 4][conc(stages, 0, 2)], conc(depth, 1, 3), [1, 2, 4, 8][conc(groups, 0, 3)], conc(wrong, 0, 3)
  sc = _config2()
  params = {'use_bn': 'True' if bn else 'False', 'stages': stages, 'depth': depth}
  want = {'use_bn': bn, 'stages': stages, 'depth': depth}
  if bn:
    params['bn_momentum'] = momentum
    want['bn_momentum'] = momentum
  else:
    params['groups'] = groups
    want['groups'] = groups
  if stages in (2, 4):
    params['merge'] = 'cat'
    want['merge'] = 'cat'
  if depth == 3:
    params['drop'] = drop
    want['drop'] = drop
  # wrong = 1..3: additionally carry a child that is INACTIVE for the chosen parent value
  must_fail = False
  if wrong == 1:
    if bn:
      params['groups'] = groups
    else:
      params['bn_momentum'] = momentum
    must_fail = True
  elif wrong == 2 and stages == 1:
    params['merge'] = 'add'
    must_fail = True
  elif wrong == 3 and depth != 3:
    params['drop'] = drop
    must_fail = True
  proto = pc.TrialConverter.to_proto(vz.Trial(id=5, parameters=params))
  try:
    got = sc.trial_parameters(proto)
    raised = False
  except ValueError:
    got, raised = None, True
  reach('other_parents_fail' if must_fail else 'other_parents_ok')
  if must_fail:
    return finish(raised, args)
  ok = not raised and sorted(got.keys()) == sorted(want.keys())
  if ok:
    for k, v in want.items():
      # (the presentation type of plain INTEGER parameters is not fixed by the property: equality only)
      ok = ok and got[k] == v and (k == 'depth' or type(got[k]) is type(v))
  return finish(ok, args)
