"""C04: two concurrent RPCs -- every single-preemption interleaving is equivalent to a serial order.

The schedule is symbolic: RPC A, RPC B and the preemption index k (A is suspended right before its k-th datastore
operation; B then runs until it finishes or blocks on a lock A holds; A resumes) are chosen by solver branching.  Each
schedule is executed with two REAL threads on the real VizierServicer + RAM datastore (outside tracing) through a datastore
proxy and recording locks, and its outcome (both responses / error classes, the final stored studies, trials, metadata and
operations, up to renumbering of trials created during the run) must equal the outcome of A;B or of B;A run serially
from the same pre-state.  A schedule in which neither call finishes is a deadlock.

Encoded (real code): VizierServicer.* RPCs incl. their lock tables, NestedDictRAMDataStore.*.
"""
import copy
import os
import threading

from engine.hsupport import NoTracing, conc, finish, known, reach
from harness import svc
from harness.svc import ACTIVE, REQUESTED, S
from vizier._src.service import study_pb2
from vizier._src.service import vizier_service_pb2 as vs

UNBLOCK = ['sqlite3.connect', 'sqlite3.connect/handle']
ASSUMPTIONS = [
    'interleavings with ONE preemption of A at datastore-operation granularity (B runs to completion or until it blocks); '
    '3-party cycles and multiple preemptions are outside the claim',
    'pre-state: active study, trial 1 ACTIVE (worker w) with one measurement, trial 2 REQUESTED, one finished operation of w',
    'the advisory yes/no answer of an early-stopping check is exempt from the comparison',
]
RPCS = ['SuggestTrials_w', 'SuggestTrials_v', 'CreateTrial', 'CompleteTrial', 'AddTrialMeasurement', 'StopTrial',
        'DeleteTrial', 'DeleteStudy', 'UpdateMetadata', 'SetStudyState', 'CreateStudy', 'CheckTrialEarlyStoppingState',
        'DeleteTrial_requested', 'UpdateMetadata_study', 'CompleteTrial_requested', 'UpdateMetadata_requested']


def _request(name):
  tn = svc.trial_name(1)
  if name == 'SuggestTrials_w':
    return 'SuggestTrials', vs.SuggestTrialsRequest(parent=S, suggestion_count=3, client_id='w')
  if name == 'SuggestTrials_v':
    return 'SuggestTrials', vs.SuggestTrialsRequest(parent=S, suggestion_count=2, client_id='v')
  if name == 'CreateTrial':
    t = study_pb2.Trial()
    t.parameters.add(parameter_id='x').value.number_value = 0.75
    return 'CreateTrial', vs.CreateTrialRequest(parent=S, trial=t)
  if name == 'CompleteTrial':
    r = vs.CompleteTrialRequest(name=tn)
    r.final_measurement.metrics.add(metric_id='m', value=7.0)
    return 'CompleteTrial', r
  if name == 'AddTrialMeasurement':
    r = vs.AddTrialMeasurementRequest(trial_name=tn)
    r.measurement.metrics.add(metric_id='m', value=9.0)
    return 'AddTrialMeasurement', r
  if name == 'StopTrial':
    return 'StopTrial', vs.StopTrialRequest(name=tn)
  if name == 'DeleteTrial':
    return 'DeleteTrial', vs.DeleteTrialRequest(name=tn)
  if name == 'UpdateMetadata_requested':            # metadata on the queued trial
    r = vs.UpdateMetadataRequest(name=S)
    d = r.delta.add()
    d.trial_id = '2'
    d.metadatum.key, d.metadatum.value = 'k', 'queued-trial-md'
    return 'UpdateMetadata', r
  if name == 'UpdateMetadata_study':                # study-level items only
    r = vs.UpdateMetadataRequest(name=S)
    d = r.delta.add()
    d.metadatum.key, d.metadatum.value = 'k2', 'study-only'
    return 'UpdateMetadata', r
  if name == 'CompleteTrial_requested':             # the queued trial: refused while REQUESTED, fine once handed out
    r = vs.CompleteTrialRequest(name=svc.trial_name(2))
    r.final_measurement.metrics.add(metric_id='m', value=3.0)
    return 'CompleteTrial', r
  if name == 'DeleteTrial_requested':
    return 'DeleteTrial', vs.DeleteTrialRequest(name=svc.trial_name(2))       # the queued (REQUESTED) trial
  if name == 'DeleteStudy':
    return 'DeleteStudy', vs.DeleteStudyRequest(name=S)
  if name == 'UpdateMetadata':
    r = vs.UpdateMetadataRequest(name=S)
    d = r.delta.add()
    d.metadatum.key, d.metadatum.value = 'k', 'from-update'
    d = r.delta.add()
    d.trial_id = '1'
    d.metadatum.key, d.metadatum.value = 'k', 'trial-md'
    return 'UpdateMetadata', r
  if name == 'SetStudyState':
    return 'SetStudyState', vs.SetStudyStateRequest(parent=S, state=2)
  if name == 'CreateStudy':
    return 'CreateStudy', vs.CreateStudyRequest(parent=svc.OWNER, study=study_pb2.Study(display_name='new', study_spec=svc.spec()))
  if name == 'CheckTrialEarlyStoppingState':
    return 'CheckTrialEarlyStoppingState', vs.CheckTrialEarlyStoppingStateRequest(trial_name=tn)
  raise AssertionError(name)


class _Lock:
  """threading.Lock that records who is waiting (so the controller sees a blocked thread at once)."""

  def __init__(self, ctl):
    self._l, self._ctl = threading.Lock(), ctl

  def __enter__(self):
    if not self._l.acquire(blocking=False):
      self._ctl.waiting.add(threading.current_thread().name)
      self._l.acquire()
      self._ctl.waiting.discard(threading.current_thread().name)
    return self

  def __exit__(self, *a):
    self._l.release()
    return False

  def acquire(self, *a, **k):
    return self._l.acquire(*a, **k)

  def release(self):
    self._l.release()


class _LockTable(dict):

  def __init__(self, ctl):
    super().__init__()
    self._ctl = ctl

  def __missing__(self, key):
    self[key] = _Lock(self._ctl)
    return self[key]


class _Ctl:

  def __init__(self, k):
    self.k, self.count = k, 0
    self.waiting = set()
    self.paused = threading.Event()
    self.resume = threading.Event()
    self.trace = []
    self.deleted, self.reused = set(), False      # trial names deleted / a deleted trial's id handed out again, in this run


class _Proxy:
  """Datastore proxy: suspends thread 'A' right before its k-th datastore operation."""

  def __init__(self, ds, ctl):
    self._ds, self._ctl = ds, ctl

  def __getattr__(self, name):
    target = getattr(self._ds, name)
    if not callable(target):
      return target
    ctl = self._ctl

    def call(*a, **kw):
      who = threading.current_thread().name
      if who == 'A' and ctl.k is not None:
        if ctl.count == ctl.k:
          ctl.paused.set()
          ctl.resume.wait(30)
        ctl.count += 1
      ctl.trace.append((who, name))
      if name == 'delete_trial' and a:
        ctl.deleted.add(a[0])
      elif name == 'create_trial' and a and a[0].name in ctl.deleted:
        ctl.reused = True
      return target(*a, **kw)

    return call


def _fresh():
  sv = svc.new_servicer(pythia=svc.StubPythia(stateful=True),      # algorithm state lives in study metadata (as GRID_SEARCH)
                        database_url='sqlite:///:memory:' if os.environ.get('VERIF_C04_SQL') else None)
  svc.add_study(sv, state=1)
  sv.datastore.create_trial(svc.make_trial(1, ACTIVE, client='w', n_meas=1))
  sv.datastore.create_trial(svc.make_trial(2, REQUESTED))
  sv.SuggestTrials(vs.SuggestTrialsRequest(parent=S, suggestion_count=1, client_id='w'))   # a finished operation of w
  return sv


def _obs(resp, name):
  if resp is None:
    return None
  n = type(resp).__name__
  if n == 'Trial':
    return svc.abstract_trial(resp)
  if n == 'Study':
    return resp.name
  if n == 'Operation':
    out = [resp.done, resp.HasField('error')]
    if resp.HasField('response'):
      out.append([svc.abstract_trial(t) for t in vs.SuggestTrialsResponse.FromString(resp.response.value).trials])
    return out
  if n == 'UpdateMetadataResponse':
    return bool(resp.error_details)
  if n == 'CheckTrialEarlyStoppingStateResponse':
    return 'advisory'
  return n


def _outcome(sv, ra, rb, base_ids, rc=None):
  state = {'s': svc.abstract(sv), 'new': svc.abstract(sv, 'owners/o/studies/new')}
  try:
    state['studies'] = sorted(s.name for s in sv.datastore.list_studies(svc.OWNER))
  except Exception:  # noqa
    state['studies'] = []
  ops = {}
  for c in ('w', 'v'):
    try:
      ops[c] = sorted((o.name, o.done) for o in sv.datastore.list_suggestion_operations(S, c))
    except Exception:  # noqa
      ops[c] = []
  state['ops'] = ops
  out = {'a': ra, 'b': rb, 'state': state}
  if rc is not None:
    out['c'] = rc
  return _canon(out, base_ids)


def _canon(x, base_ids):
  """Outcomes are compared up to the ids of trials created during the run.  Ids are max+1, so an id freed by a delete can be
  handed out again and an id alone does not identify a trial: every trial is labelled by CONTENT instead -- a pre-state
  trial (x = 0.25, pre-state id) keeps its id, any other trial is 'new'; a map id -> trial becomes a sorted list."""
  if isinstance(x, dict):
    if 'id' in x and 'state' in x and 'client' in x:
      pre = x['id'] in base_ids and x['params'] == [['x', 0.25]]
      return [x['id'] if pre else 'new', {k: _canon(v, base_ids) for k, v in x.items() if k != 'id'}]
    if x and all(isinstance(k, int) for k in x):
      return sorted((_canon(v, base_ids) for v in x.values()), key=repr)
    return {k: _canon(v, base_ids) for k, v in x.items()}
  if isinstance(x, (list, tuple)):
    return [_canon(v, base_ids) for v in x]
  return x


def _run_serial(first, second):
  sv = _fresh()
  base = set(svc.abstract(sv)['trials'])
  res = []
  for name in (first, second):
    m, req = _request(name)
    r, e = svc.call(getattr(sv, m), req)
    res.append((svc.classify(e), _obs(r, name)))
  return sv, res, base


def _schedule(a_name, b_name, k, args):
  with NoTracing():
    # the two serial orders
    sv1, r1, base = _run_serial(a_name, b_name)
    serial_ab = _outcome(sv1, r1[0], r1[1], base)
    sv2, r2, _ = _run_serial(b_name, a_name)
    serial_ba = _outcome(sv2, r2[1], r2[0], base)
    # the interleaved run
    sv = _fresh()
    ctl = _Ctl(k)
    sv.datastore = _Proxy(sv.datastore, ctl)
    sv._owner_name_to_lock = _LockTable(ctl)
    sv._study_name_to_lock = _LockTable(ctl)
    sv._operation_lock = _LockTable(ctl)
    results = {}

    def run(tag, name):
      m, req = _request(name)
      r, e = svc.call(getattr(sv, m), req)
      results[tag] = (svc.classify(e), _obs(r, name), None if e is None else type(e).__name__)

    ta = threading.Thread(target=run, args=('a', a_name), name='A', daemon=True)
    ta.start()
    while not ctl.paused.is_set() and ta.is_alive():
      ta.join(0.002)
    if not ctl.paused.is_set():
      return True                        # A has fewer than k+1 datastore operations: no such preemption point
    tb = threading.Thread(target=run, args=('b', b_name), name='B', daemon=True)
    tb.start()
    waited = 0.0
    while tb.is_alive() and 'B' not in ctl.waiting and waited < 5.0:
      tb.join(0.002)
      waited += 0.002
    ctl.resume.set()
    ta.join(20)
    tb.join(20)
    tag = '%s|%s@%d' % (a_name, b_name, k)
    if ta.is_alive() or tb.is_alive():
      reach('deadlock')
      return finish(False, args, obs=[tag, 'deadlock / did not terminate'])
    sv.datastore = sv.datastore._ds
    got = _outcome(sv, results['a'][:2], results['b'][:2], base)
    ok = got == serial_ab or got == serial_ba
    if _dup_ids([a_name, b_name], results):              # (hidden by the relabelling: checked on the raw responses)
      ok = False
    if not ok:
      # open findings are recognised by their SIGNATURE in this run, not by the pair alone: the id of a trial deleted
      # during the run was handed out again / X ended with an error class no serial order produces next to DeleteStudy
      kf = KF_REUSE if (ctl.reused and known(KF_REUSE)) else _known_triple([a_name, b_name], results)
      if kf:
        reach('known:' + kf)
        return finish(True, args, obs=[tag, 'known finding ' + kf])
    reach('serializable' if ok else 'NOT serializable')
    return finish(ok, args, obs=[tag, None if ok else {'got': got, 'ab': serial_ab, 'ba': serial_ba}])


def pair(a: int, b: int, k: int) -> bool:
  """
  pre: 0 <= a <= 15 and 0 <= b <= 15 and 0 <= k <= 11
  post: _
  """
  a = conc(a, 0, 15)
  sl = os.environ.get('VERIF_SLICE')
  if sl is not None and a != int(sl):
    return True
  b, k = conc(b, 0, 15), conc(k, 0, 11)
  return _schedule(RPCS[a], RPCS[b], k, (a, b, k))


# ---- three parties: A suspended at its k-th datastore operation, then B, then C run until they finish or block ----------
TRI = ['CreateTrial', 'DeleteStudy', 'SuggestTrials_v', 'CompleteTrial', 'UpdateMetadata', 'SetStudyState', 'DeleteTrial',
       'DeleteTrial_requested']


KF_REUSE = 'C04-DeleteTrial+SuggestTrials-trial-id-reused'


def _dup_ids(names, results):
  """One SuggestTrials response carrying two trials with the same id."""
  for tag, n in zip('abc', names):
    if n.startswith('SuggestTrials') and tag in results:
      obs = results[tag][1]
      if isinstance(obs, list) and len(obs) == 3:
        ids = [t['id'] for t in obs[2]]
        if len(ids) != len(set(ids)):
          return True
  return False


def _known_triple(names, results):
  """The open pair findings (X || DeleteStudy: X ends with an error class no serial order produces) also show in a triple;
  a triple is attributed to them only when it shows that very signature."""
  if 'DeleteStudy' not in names:
    return None
  for tag, n in zip('abc', names):
    base = n.split('_')[0]
    if base == 'DeleteStudy':
      continue
    cls, obs = results[tag][0], results[tag][1]
    odd = cls == svc.OTHER_ERROR or (base == 'UpdateMetadata' and obs is True)
    if odd:
      kf = 'C04-' + '+'.join(sorted([base, 'DeleteStudy']))
      if known(kf):
        return kf
  return None


def _triple(names, k, args):
  import itertools
  with NoTracing():
    serial = []
    base = None
    for order in itertools.permutations(range(3)):
      sv = _fresh()
      base = set(svc.abstract(sv)['trials'])
      res = [None, None, None]
      for i in order:
        m, req = _request(names[i])
        r, e = svc.call(getattr(sv, m), req)
        res[i] = (svc.classify(e), _obs(r, names[i]))
      serial.append(_outcome(sv, res[0], res[1], base, res[2]))
    sv = _fresh()
    ctl = _Ctl(k)
    sv.datastore = _Proxy(sv.datastore, ctl)
    sv._owner_name_to_lock = _LockTable(ctl)
    sv._study_name_to_lock = _LockTable(ctl)
    sv._operation_lock = _LockTable(ctl)
    results = {}

    def run(tag, name):
      m, req = _request(name)
      r, e = svc.call(getattr(sv, m), req)
      results[tag] = (svc.classify(e), _obs(r, name), None if e is None else type(e).__name__)

    ta = threading.Thread(target=run, args=('a', names[0]), name='A', daemon=True)
    ta.start()
    while not ctl.paused.is_set() and ta.is_alive():
      ta.join(0.002)
    if not ctl.paused.is_set():
      return True
    others = []
    for tag, name, tname in (('b', names[1], 'B'), ('c', names[2], 'C')):
      t = threading.Thread(target=run, args=(tag, name), name=tname, daemon=True)
      t.start()
      waited = 0.0
      while t.is_alive() and tname not in ctl.waiting and waited < 5.0:
        t.join(0.002)
        waited += 0.002
      others.append(t)
    ctl.resume.set()
    for t in [ta] + others:
      t.join(20)
    tag = '%s|%s|%s@%d' % (names[0], names[1], names[2], k)
    if any(t.is_alive() for t in [ta] + others):
      reach('deadlock3')
      return finish(False, args, obs=[tag, 'deadlock / did not terminate'])
    sv.datastore = sv.datastore._ds
    got = _outcome(sv, results['a'][:2], results['b'][:2], base, results['c'][:2])
    ok = got in serial
    if _dup_ids(names, results):
      ok = False
    if not ok:
      kf = KF_REUSE if (ctl.reused and known(KF_REUSE)) else _known_triple(names, results)
      if kf:
        reach('known3:' + kf)
        return finish(True, args, obs=[tag, 'known finding ' + kf])
    reach('serializable3' if ok else 'NOT serializable3')
    return finish(ok, args, obs=[tag, None if ok else {'got': got, 'serial': serial}])


def triple(a: int, b: int, c: int, k: int) -> bool:
  """
  pre: 0 <= a <= 7 and 0 <= b <= 7 and 0 <= c <= 7 and 0 <= k <= 9
  post: _
  """
  a = conc(a, 0, 7)
  sl = os.environ.get('VERIF_SLICE')
  if sl is not None and a != int(sl):
    return True
  b, c, k = conc(b, 0, 7), conc(c, 0, 7), conc(k, 0, 9)
  return _triple([TRI[a], TRI[b], TRI[c]], k, (a, b, c, k))
