"""C09: wire-format round trips with SYMBOLIC leaves (runs on the symproto back end so values are never realised).

Encoded (real code): proto_converters.ParameterConfigConverter / ParameterValueConverter / MeasurementConverter /
MetricInformationConverter / TrialConverter / TrialSuggestionConverter / MetadataDeltaConverter / SuggestConverter /
EarlyStopConverter, StudyConfig.to_proto/from_proto, metadata_util.*, automated_stopping.
Post: from_proto(to_proto(x)) == x (modulo the documented lossy fields) and to_proto(from_proto(to_proto(x))) == to_proto(x).
"""
import datetime
import os

from engine.hsupport import NoTracing, cbool, conc, finish, known, reach
from env import bootstrap
from vizier import pythia
from vizier import pyvizier as vz
from vizier._src.pyvizier.oss import metadata_util
from vizier._src.pyvizier.oss import proto_converters as pc
from vizier._src.pyvizier.shared import parameter_config as pcfg
from vizier._src.service import study_pb2
from vizier.service import pyvizier as svz

bootstrap.post_import()
from engine import npshim  # noqa: E402
from vizier._src.pyvizier.shared import trial as _trial_mod  # noqa: E402
npshim.install(_trial_mod)

ASSUMPTIONS = [
    'protobuf runtime replaced by env/symproto (pure-Python model, validated per path against upb and by the setup self-test)',
    'trial.np rebound to engine/npshim (np.isfinite on symbolic scalars)',
    'float leaves are mathematical reals (+nan/inf cases where the constructors admit them): no rounding claim',
]
_SCALES = [None, pcfg.ScaleType.LINEAR, pcfg.ScaleType.LOG, pcfg.ScaleType.REVERSE_LOG]


def _finite(x):
  return x == x and x != float('inf') and x != float('-inf')


def _rt_config(cfg, args, tag):
  p1 = pc.ParameterConfigConverter.to_proto(cfg)
  back = pc.ParameterConfigConverter.from_proto(p1)
  p2 = pc.ParameterConfigConverter.to_proto(back)
  reach(tag)
  ok = back == cfg and back.default_value == cfg.default_value and back.scale_type == cfg.scale_type
  ok = ok and back.external_type == cfg.external_type and p2 == p1
  return finish(ok, args, obs=tag)


def config_double(lo: float, hi: float, has_default: bool, dv: float, scale: int) -> bool:
  """
  pre: 0 <= scale <= 3
  post: _
  """
  if not (_finite(lo) and _finite(hi) and lo <= hi):
    return True
  scale = conc(scale, 0, 3)
  default = None
  if has_default:
    if not _finite(dv):
      return True
    default = dv
  cfg = pcfg.ParameterConfig.factory('x', bounds=(lo, hi), default_value=default, scale_type=_SCALES[scale])
  return _rt_config(cfg, (lo, hi, has_default, dv, scale), 'double')


def config_integer(lo: int, hi: int, has_default: bool, dv: int, ext: int) -> bool:
  """
  pre: lo <= hi and 0 <= ext <= 1
  post: _
  """
  ext = conc(ext, 0, 1)
  cfg = pcfg.ParameterConfig.factory('x', bounds=(lo, hi), default_value=dv if has_default else None,
                                     external_type=[pcfg.ExternalType.INTERNAL, pcfg.ExternalType.INTEGER][ext])
  return _rt_config(cfg, (lo, hi, has_default, dv, ext), 'integer')


def config_discrete(n: int, a: float, b: float, c: float, has_default: bool, dv: float, ext: int) -> bool:
  """
  pre: 1 <= n <= 3 and 0 <= ext <= 2
  post: _
  """
  n, ext = conc(n, 1, 3), conc(ext, 0, 2)
  if not (b > 0 and c > 0 and _finite(a) and _finite(b) and _finite(c)):
    return True
  if has_default and not _finite(dv):
    return True
  vals = [a, a + b, a + b + c][:n]
  cfg = pcfg.ParameterConfig.factory(
      'x', feasible_values=vals, default_value=dv if has_default else None,
      external_type=[pcfg.ExternalType.INTERNAL, pcfg.ExternalType.INTEGER, pcfg.ExternalType.FLOAT][ext])
  return _rt_config(cfg, (n, a, b, c, has_default, dv, ext), 'discrete')


def config_categorical(n: int, a: str, b: str, has_default: bool, dv: str, is_bool: bool) -> bool:
  """
  pre: 1 <= n <= 2 and len(a) <= 2 and len(b) <= 2 and len(dv) <= 2
  post: _
  """
  n = conc(n, 1, 2)
  vals = [a, b][:n]
  if n == 2 and a == b:
    return True
  if is_bool:
    vals = ['False', 'True']
  cfg = pcfg.ParameterConfig.factory(
      'x', feasible_values=vals, default_value=dv if has_default else None,
      external_type=pcfg.ExternalType.BOOLEAN if is_bool else pcfg.ExternalType.INTERNAL)
  return _rt_config(cfg, (n, a, b, has_default, dv, is_bool), 'categorical')


def config_conditional(depth: int, lo: int, hi: int, multi: bool) -> bool:
  """
  pre: 1 <= depth <= 2 and -1 <= lo <= 1 and lo <= hi <= lo + 2
  post: _
  """
  depth = conc(depth, 1, 2)
  lo = conc(lo, -1, 1)
  hi = conc(hi, lo, lo + 2)
  multi = cbool(multi)
  # the subject is the tree structure; every leaf is concrete after branching, so run natively (fast)
  with NoTracing():
    space = vz.SearchSpace()
    root = space.root.add_categorical_param('model', ['dnn', 'linear', 'tree'])
    parents = ['dnn', 'tree'] if multi else ['dnn']
    child = root.select_values(parents).add_int_param('layers', lo, hi)
    if depth == 2:
      child.select_values([lo]).add_float_param('rate', -0.5, 0.5)
    if not multi:
      # the same child name under another parent value, with a different domain
      root.select_values(['tree']).add_int_param('layers', lo + 10, hi + 20)
    cfg = space.get('model')
    p1 = pc.ParameterConfigConverter.to_proto(cfg)
    back = pc.ParameterConfigConverter.from_proto(p1)
    p2 = pc.ParameterConfigConverter.to_proto(back)
    names = sorted((p.name, str(p.bounds) if p.type.is_numeric() else '') for p in back.traverse())
    want = sorted((p.name, str(p.bounds) if p.type.is_numeric() else '') for p in cfg.traverse())
    ok = bool(back == cfg and names == want and p2 == p1)
  reach('conditional_depth%d' % depth)
  return finish(ok, (depth, lo, hi, multi), obs=names)


def measurement(n: int, v1: float, v2: float, secs_whole: int, micros: int, steps: int) -> bool:
  """
  pre: 0 <= n <= 2 and 0 <= secs_whole and 0 <= micros < 1000000 and 0 <= steps
  post: _
  """
  n = conc(n, 0, 2)
  if not (_finite(v1) and _finite(v2)):
    return True
  metrics = dict(list({'m1': v1, 'm2': v2}.items())[:n])
  secs = secs_whole + micros / 1000000
  m = vz.Measurement(metrics, elapsed_secs=secs, steps=steps)
  p1 = pc.MeasurementConverter.to_proto(m)
  back = pc.MeasurementConverter.from_proto(p1)
  p2 = pc.MeasurementConverter.to_proto(back)
  reach('measurement%d' % n)
  ok = {k: mv.value for k, mv in back.metrics.items()} == {k: mv.value for k, mv in m.metrics.items()}
  ok = ok and back.steps == m.steps
  # times are preserved to the microsecond
  d = back.elapsed_secs - m.elapsed_secs
  ok = ok and -0.000001 < d < 0.000001
  ok = ok and p2 == p1
  return finish(ok, (n, v1, v2, secs_whole, micros, steps))


def metric_information(goal: int, safety: bool, thr: float, has_frac: bool, frac: float) -> bool:
  """
  pre: 1 <= goal <= 2
  post: _
  """
  goal = conc(goal, 1, 2)
  if safety and not _finite(thr):
    return True
  if has_frac and not (0 <= frac <= 1):
    return True
  g = vz.ObjectiveMetricGoal.MAXIMIZE if goal == 1 else vz.ObjectiveMetricGoal.MINIMIZE
  mi = vz.MetricInformation('m', goal=g, safety_threshold=thr if safety else None,
                            desired_min_safe_trials_fraction=frac if (safety and has_frac) else None)
  p1 = pc.MetricInformationConverter.to_proto(mi)
  back = pc.MetricInformationConverter.from_proto(p1)
  p2 = pc.MetricInformationConverter.to_proto(back)
  reach('metric_information')
  ok = back.name == mi.name and back.goal == mi.goal and back.safety_threshold == mi.safety_threshold
  ok = ok and back.desired_min_safe_trials_fraction == mi.desired_min_safe_trials_fraction and p2 == p1
  return finish(ok, (goal, safety, thr, has_frac, frac))


_US = [0, 1, 500000, 999999]


def trial_roundtrip(kind: int, tid: int, fval: float, ival: int, sval: str, bval: bool, n_meas: int, mval: float,
                    created_us: int, done_us: int) -> bool:
  """
  pre: 0 <= kind <= 4 and 1 <= tid <= 3 and len(sval) <= 1 and 0 <= n_meas <= 1 and 0 <= created_us <= 3 and 0 <= done_us <= 3
  post: _
  """
  kind = conc(kind, 0, 4)
  tid_arg = tid
  tid = [1, 12, 2 ** 40][conc(tid, 1, 3) - 1]       # (a symbolic id costs an int<->string conversion in every solver query)
  n_meas = conc(n_meas, 0, 1)
  sl = os.environ.get('VERIF_SLICE')
  if sl is not None and kind * 2 + n_meas != int(sl):
    return True
  args = (kind, tid_arg, fval, ival, sval, bval, n_meas, mval, created_us, done_us)
  created_us = conc(created_us, 0, 3)                 # times are concrete (symbolic datetime: inconclusive)
  if kind >= 3:
    if tid != 1:
      return True                                     # (the id dimension is covered on the unfinished trials)
    done_us = conc(done_us, 0, 3)
    if created_us in (1, 2) and done_us != 0:
      return True                                     # time patterns: every creation x {0}, {0, 3} x every completion
  else:
    done_us = 0                                       # no completion time on an unfinished trial
  if not (_finite(fval) and _finite(mval)):
    return True
  t = vz.Trial(id=tid, parameters={'f': fval, 'i': ival, 's': sval, 'b': 'True' if bval else 'False'})
  with NoTracing():
    base = datetime.datetime(2020, 1, 1, 12, 0, 0)
    created = base + datetime.timedelta(microseconds=_US[created_us])
    done = base + datetime.timedelta(seconds=77, microseconds=_US[done_us])
  t.creation_time = created
  for _ in range(n_meas):
    t.measurements.append(vz.Measurement({'m': mval}, steps=1))
  if kind == 1:
    t.is_requested = True
  elif kind == 2:
    t.stopping_reason = 'stop'
  elif kind == 3:
    t.complete(vz.Measurement({'m': mval}))
  elif kind == 4:
    t.complete(vz.Measurement({'m': mval}), infeasibility_reason='bad')
  if kind >= 3:
    t.completion_time = done
  t.metadata.ns('algo')['k'] = sval
  p1 = pc.TrialConverter.to_proto(t)
  back = pc.TrialConverter.from_proto(p1)
  p2 = pc.TrialConverter.to_proto(back)
  reach('trial_kind%d' % kind)
  ok = back.id == t.id and back.status == t.status and back.infeasible == t.infeasible
  ok = ok and back.parameters == t.parameters and back.is_requested == t.is_requested
  ok = ok and len(back.measurements) == len(t.measurements)
  ok = ok and (back.final_measurement is None) == (t.final_measurement is None)
  if t.final_measurement is not None:
    ok = ok and back.final_measurement.metrics['m'].value == mval
  ok = ok and back.metadata.ns('algo')['k'] == sval
  ok = ok and back.creation_time == t.creation_time
  ok = ok and back.completion_time == t.completion_time
  ok = ok and p2 == p1
  return finish(ok, args)


_KEYS = ['', 'k', ':', 'a:b']
_NSS = [(), ('a',), ('a:b',), (':',), ('x' + chr(92) + 'y',), ('', 'a'), ('a', ''), ('', '')]


def suggestion_and_delta(fval: float, sval: str, key: int, val: str, ns1: int, tid: int, count: int) -> bool:
  """
  pre: len(sval) <= 1 and 0 <= key <= 1 and len(val) <= 1 and 0 <= ns1 <= 7 and 1 <= tid <= 1 and 0 < count
  post: _
  """
  if not _finite(fval):
    return True
  args = (fval, sval, key, val, ns1, tid, count)
  key, ns1 = [_KEYS[0], _KEYS[3]][conc(key, 0, 1)], vz.Namespace(_NSS[conc(ns1, 0, 7)])      # dict keys are concrete (hashing realises symbolic strings)
  tid = conc(tid, 1, 1)
  sug = vz.TrialSuggestion({'f': fval, 's': sval})
  sug.metadata.abs_ns(ns1)[key] = val
  delta = vz.MetadataDelta()
  delta.on_study.abs_ns(ns1)[key] = val
  delta.on_trials[tid].ns('t')[key] = val
  decision = pythia.SuggestDecision([sug], metadata=delta)
  p1 = pc.SuggestConverter.to_decision_proto(decision)
  back = pc.SuggestConverter.from_decision_proto(p1)
  p2 = pc.SuggestConverter.to_decision_proto(back)
  reach('decision')
  ok = len(back.suggestions) == 1 and back.suggestions[0].parameters == sug.parameters
  ok = ok and back.suggestions[0].metadata.abs_ns(ns1)[key] == val
  ok = ok and sorted(tuple(n) for n in back.suggestions[0].metadata.namespaces()) == [tuple(ns1)]
  ok = ok and back.metadata.on_study.abs_ns(ns1)[key] == val and back.metadata.on_trials[tid].ns('t')[key] == val
  ok = ok and list(back.metadata.on_trials.keys()) == [tid] and p2 == p1
  return finish(ok, args)


def study_config_roundtrip(algo: int, noise: int, stopping: bool, lo: float, hi: float, key: int, val: str, endpoint: bool) -> bool:
  """
  pre: 1 <= algo <= 2 and 0 <= noise <= 1 and 0 <= key <= 3 and len(val) <= 1
  post: _
  """
  args = (algo, noise, stopping, lo, hi, key, val, endpoint)
  algo, noise = conc(algo, 1, 2), conc(noise, 0, 1)
  if endpoint and (stopping or noise or algo != 1):
    return True               # the endpoint case is explored for one base configuration only
  key = _KEYS[conc(key, 0, 3)]
  if not (_finite(lo) and _finite(hi) and lo <= hi):
    return True
  sc = svz.StudyConfig(algorithm=['ALGORITHM_UNSPECIFIED', 'RANDOM_SEARCH', 'my_custom_algo'][algo])
  sc.observation_noise = list(svz.ObservationNoise)[noise]
  if stopping:
    sc.automated_stopping_config = svz.AutomatedStoppingConfig.default_stopping_spec()
  sc.search_space.add(pcfg.ParameterConfig.factory('x', bounds=(lo, hi)))
  sc.metric_information.append(vz.MetricInformation('m', goal=vz.ObjectiveMetricGoal.MINIMIZE))
  sc.metadata[key] = val
  sc.metadata.ns('n')[key] = val
  if endpoint:
    sc.pythia_endpoint = 'localhost:1234'
  p1 = sc.to_proto()
  back = svz.StudyConfig.from_proto(p1)
  p2 = back.to_proto()
  reach('study_config')
  ok = back.algorithm == sc.algorithm and back.observation_noise == sc.observation_noise
  ok = ok and (back.automated_stopping_config is None) == (sc.automated_stopping_config is None)
  ok = ok and back.search_space == sc.search_space and list(back.metric_information) == list(sc.metric_information)
  ok = ok and back.metadata[key] == val and back.metadata.ns('n')[key] == val and p2 == p1
  ok = ok and back.pythia_endpoint == sc.pythia_endpoint
  ok = ok and svz.StudyConfig.from_proto(p2).to_proto() == p1          # a third conversion is still identical
  # a config obtained from the wire, edited (entry removed, entry replaced), converted again
  del back.metadata[key]
  back.metadata.ns('n')[key] = 'other'
  again = svz.StudyConfig.from_proto(back.to_proto())
  ok = ok and key not in again.metadata and again.metadata.ns('n')[key] == 'other'
  ok = ok and len(list(again.metadata.ns('n').keys())) == 1
  return finish(ok, args)
