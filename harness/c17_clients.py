"""C17 through the client API: what `clients.Trial.parameters` presents follows the study's CURRENT declaration -- also after the
study was deleted and re-created under the same owner / id with other declarations -- and a child parameter that is declared
differently under different parent values is presented per the declaration that is active for the trial.

The configuration (which declaration pair, which values, whether the old study was read before it was deleted) is chosen by
the solver; the real in-process service + clients code runs natively on it.

Encoded (real code): clients.Study/Trial (parameters, add_trial / request, delete), vizier_client, VizierServicer,
StudyConfig.trial_parameters / _pytrial_parameters, ParameterConfigConverter (conditional children).
"""
from engine.hsupport import NoTracing, cbool, conc, finish, reach
from vizier import pyvizier as vz

ASSUMPTIONS = ['in-process service on the RAM datastore; declarations and values from small menus']


def _servicer():
  from vizier._src.service import vizier_service
  return vizier_service.VizierServicer(database_url=None)


def _study(sv, build):
  from vizier._src.service import clients, study_pb2, vizier_client, vizier_service_pb2
  from vizier.service import pyvizier as svz
  sc = svz.StudyConfig(algorithm='RANDOM_SEARCH')
  build(sc.search_space.root)
  sc.metric_information.append(svz.MetricInformation('m', goal=svz.ObjectiveMetricGoal.MAXIMIZE))
  st = sv.CreateStudy(vizier_service_pb2.CreateStudyRequest(parent='owners/o', study=study_pb2.Study(
      display_name='s', study_spec=sc.to_proto())))
  return clients.Study(vizier_client.VizierClient(st.name, 'c', sv))


def _typed(d):
  return sorted((k, type(v).__name__, v) for k, v in d.items())


def recreated_study(first: int, second: int, read_before: bool) -> bool:
  """
  pre: 0 <= first <= 2 and 0 <= second <= 2 and first != second
  post: _
  """
  first, second, read_before = conc(first, 0, 2), conc(second, 0, 2), cbool(read_before)
  with NoTracing():
    # three declarations of the same two names
    decls = [
        (lambda r: (r.add_discrete_param('x', [0.5, 1.0, 2.0]), r.add_categorical_param('flag', ['True', 'False', 'maybe'])),
         {'x': 1.0, 'flag': 'True'}, {'x': 1.0, 'flag': 'True'}),                      # float-valued discrete, plain categorical
        (lambda r: (r.add_discrete_param('x', [1, 2, 4]), r.add_bool_param('flag')),
         {'x': 1, 'flag': 'True'}, {'x': 1, 'flag': True}),                           # integer-valued discrete, boolean
        (lambda r: (r.add_float_param('x', 0.0, 4.0), r.add_categorical_param('flag', ['True', 'False'])),
         {'x': 1.0, 'flag': 'False'}, {'x': 1.0, 'flag': 'False'}),                    # continuous, categorical
    ]
    sv = _servicer()
    build, stored, want = decls[first]
    study = _study(sv, build)
    t = study.request(vz.TrialSuggestion(parameters=stored))
    ok = True
    if read_before:
      ok = _typed(t.parameters) == _typed(want)
    study.delete()
    build, stored, want = decls[second]
    study = _study(sv, build)
    t = study.request(vz.TrialSuggestion(parameters=stored))
    got = _typed(t.parameters)
    ok = ok and got == _typed(want)
    # ... and through every trial of the listing
    ok = ok and all(_typed(x.parameters) == _typed(want) for x in study.trials())
  reach('recreated_study')
  return finish(ok, (first, second, read_before), obs=None if ok else [got, _typed(want)])


def same_name_children(parent: int, v: int) -> bool:
  """
  pre: 0 <= parent <= 1 and 0 <= v <= 1
  post: _
  """
  parent, v = conc(parent, 0, 1), conc(v, 0, 1)
  with NoTracing():
    # `size` is integer-valued under model=dnn and float-valued under model=linear
    def build(r):
      m = r.add_categorical_param('model', ['dnn', 'linear'])
      m.select_values(['dnn']).add_discrete_param('size', [1, 2, 4])
      m.select_values(['linear']).add_discrete_param('size', [0.5, 1.0])
    sv = _servicer()
    study = _study(sv, build)
    if parent == 0:
      stored, want = {'model': 'dnn', 'size': [1, 4][v]}, {'model': 'dnn', 'size': [1, 4][v]}
    else:
      stored, want = {'model': 'linear', 'size': [0.5, 1.0][v]}, {'model': 'linear', 'size': [0.5, 1.0][v]}
    t = study.request(vz.TrialSuggestion(parameters=stored))
    got = _typed(t.parameters)
    ok = got == _typed(want)
    sc = study.materialize_study_config()
    from vizier._src.pyvizier.oss import proto_converters as pc
    ok = ok and _typed(sc.trial_parameters(pc.TrialConverter.to_proto(t.materialize()))) == _typed(want)
  reach('same_name_children')
  return finish(ok, (parent, v), obs=None if ok else [got, _typed(want)])
