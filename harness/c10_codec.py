"""C10 namespace codec: Namespace.encode / Namespace.decode (_parse) round trip, injectivity, sequence behaviour.

Encoded (real code from /repo): common.Namespace.__init__/encode/decode/__add__/__getitem__/startswith, common._parse.
Components are symbolic strings (any unicode code points) of bounded length.
"""
from engine.hsupport import conc, finish, known, reach
from vizier._src.pyvizier.shared import common

BS = chr(92)
KF = 'C10-namespace-component-trailing-backslash'
ASSUMPTIONS = ['namespace components: 0..3 components of bounded length over all unicode code points']


def _skip_known(comps):
  """Region of the open known finding (component ending in a backslash) is excluded so the rest is searched."""
  if not known(KF):
    return False
  for c in comps:
    if len(c) > 0 and c[len(c) - 1] == BS:
      return True
  return False


def _roundtrip(comps, args):
  if _skip_known(comps):
    return True
  ns = common.Namespace(comps)
  enc = ns.encode()
  dec = common.Namespace.decode(enc)
  reach('roundtrip_%d' % len(comps))
  ok = tuple(dec) == tuple(comps) and dec == ns and len(dec) == len(comps)
  return finish(ok, args)


def ns_roundtrip_1x4(n: int, a: str) -> bool:
  """
  pre: 0 <= n <= 1 and len(a) <= 4
  post: _
  """
  n = conc(n, 0, 1)
  return _roundtrip([a][:n], (n, a))


def ns_roundtrip_2x2(a: str, b: str) -> bool:
  """
  pre: len(a) <= 2 and len(b) <= 2
  post: _
  """
  return _roundtrip([a, b], (a, b))


def ns_roundtrip_3x1(a: str, b: str, c: str) -> bool:
  """
  pre: len(a) <= 1 and len(b) <= 1 and len(c) <= 1
  post: _
  """
  return _roundtrip([a, b, c], (a, b, c))


def ns_roundtrip_3x2(a: str, b: str, c: str) -> bool:
  """
  pre: len(a) <= 2 and len(b) <= 2 and len(c) <= 2
  post: _
  """
  return _roundtrip([a, b, c], (a, b, c))


def ns_roundtrip_2x3(a: str, b: str) -> bool:
  """
  pre: len(a) <= 3 and len(b) <= 3
  post: _
  """
  return _roundtrip([a, b], (a, b))


def _injective(c1, c2, args):
  if _skip_known(c1) or _skip_known(c2):
    return True
  if c1 == c2:
    return True
  e1 = common.Namespace(c1).encode()
  e2 = common.Namespace(c2).encode()
  reach('injective_%d_%d' % (len(c1), len(c2)))
  return finish(e1 != e2, args)


def ns_injective_1v1(a1: str, a2: str) -> bool:
  """
  pre: len(a1) <= 2 and len(a2) <= 2
  post: _
  """
  return _injective([a1], [a2], (a1, a2))


def ns_injective_2v1(a1: str, b1: str, a2: str) -> bool:
  """
  pre: len(a1) <= 1 and len(b1) <= 1 and len(a2) <= 3
  post: _
  """
  return _injective([a1, b1], [a2], (a1, b1, a2))


def ns_injective_mixed(n1: int, a1: str, b1: str, n2: int, a2: str, b2: str) -> bool:
  """
  pre: 0 <= n1 <= 2 and 0 <= n2 <= 2 and len(a1) <= 1 and len(b1) <= 1 and len(a2) <= 1 and len(b2) <= 1
  post: _
  """
  n1 = conc(n1, 0, 2)
  n2 = conc(n2, 0, 2)
  return _injective([a1, b1][:n1], [a2, b2][:n2], (n1, a1, b1, n2, a2, b2))


def ns_injective_2v2(a1: str, b1: str, a2: str, b2: str) -> bool:
  """
  pre: len(a1) <= 2 and len(b1) <= 2 and len(a2) <= 2 and len(b2) <= 2
  post: _
  """
  return _injective([a1, b1], [a2, b2], (a1, b1, a2, b2))


def ns_sequence(n: int, a: str, b: str, c: str, k: int) -> bool:
  """
  pre: 0 <= n <= 3 and 0 <= k <= 3 and len(a) <= 2 and len(b) <= 2 and len(c) <= 2
  post: _
  """
  n = conc(n, 0, 3)
  k = conc(k, 0, 3)
  comps = [a, b, c][:n]
  ns = common.Namespace(comps)
  ok = common.Namespace(tuple(ns)) == ns and common.Namespace(ns) == ns and len(ns) == n
  ok = ok and ns.startswith(comps[:k])
  ok = ok and (ns + ('x',))[:n] == ns and len(ns + ('x',)) == n + 1
  if k < n:
    other = comps[:k] + [comps[k] + 'z']
    ok = ok and not ns.startswith(other)
  reach('sequence')
  return finish(ok, (n, a, b, c, k))
