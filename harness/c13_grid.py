"""C13 (grid part) + C03 kernel 4: GridSearchDesigner suggest / dump / load.

Encoded (real code): GridSearchDesigner.__init__/suggest/dump/load/_maybe_shuffled_grid_values, pyvizier.Metadata ns/get/set,
ParameterDict, TrialSuggestion.  _current_index is an arbitrary symbolic int >= 0.
"""
import random as _random

from engine.hsupport import NoTracing, conc, finish, reach
from vizier import pyvizier as vz
from vizier._src.algorithms.designers import grid


class _NativeRandom:
  """random.Random executed natively: CrossHair would otherwise turn getrandbits() into symbolic nondeterminism.

  The seed is concrete in every harness, so the permutation is the real one.
  """

  def __init__(self, seed=None):
    with NoTracing():
      self._r = _random.Random(seed)

  def shuffle(self, x):
    with NoTracing():
      self._r.shuffle(x)


class _RandomModule:
  Random = _NativeRandom


grid.random = _RandomModule
STUBS = ['grid.random.Random(seed).shuffle runs natively outside tracing (seed concrete per branch)']


def _designer(r1, r2, r3=0, seed=None):
  # every input of the constructor is concrete here: build outside tracing (pure speed-up, same code)
  with NoTracing():
    return grid.GridSearchDesigner(_space(r1, r2, r3), shuffle_seed=seed)

ASSUMPTIONS = [
    'grid radices chosen by branching from 1..3 per parameter (INTEGER x CATEGORICAL [x DISCRETE]); index unbounded',
    'dump/load string hop (str(int) -> int(str)) decided for index < 1000 only (z3 str.from_int)',
]


def _space(r1, r2, r3=0):
  ss = vz.SearchSpace()
  ss.root.add_int_param('i', 0, r1 - 1)
  ss.root.add_categorical_param('c', [chr(97 + k) for k in range(r2)])
  if r3:
    ss.root.add_discrete_param('d', [0.5 * k for k in range(r3)])
  return ss


def _vals(suggestions):
  return [s.parameters.as_dict() for s in suggestions]


def grid_bijection(r1: int, r2: int, i: int, j: int) -> bool:
  """
  pre: 1 <= r1 <= 3 and 1 <= r2 <= 3 and 0 <= i and 0 <= j and i != j
  post: _
  """
  r1 = conc(r1, 1, 3)
  r2 = conc(r2, 1, 3)
  d1 = _designer(r1, r2)
  d1._current_index = i
  d2 = _designer(r1, r2)
  d2._current_index = j
  p1 = _vals(d1.suggest(1))[0]
  p2 = _vals(d2.suggest(1))[0]
  same = p1 == p2
  reach('bijection')
  return finish(same == ((i - j) % (r1 * r2) == 0), (r1, r2, i, j))


def grid_bijection3(r1: int, r2: int, r3: int, i: int, j: int) -> bool:
  """
  pre: 1 <= r1 <= 2 and 1 <= r2 <= 3 and 1 <= r3 <= 3 and 0 <= i and 0 <= j and i != j
  post: _
  """
  r1 = conc(r1, 1, 2)
  r2 = conc(r2, 1, 3)
  r3 = conc(r3, 1, 3)
  d1 = _designer(r1, r2, r3)
  d1._current_index = i
  d2 = _designer(r1, r2, r3)
  d2._current_index = j
  same = _vals(d1.suggest(1))[0] == _vals(d2.suggest(1))[0]
  reach('bijection3')
  return finish(same == ((i - j) % (r1 * r2 * r3) == 0), (r1, r2, r3, i, j))


def grid_members(r1: int, r2: int, r3: int, i: int, count: int) -> bool:
  """
  pre: 1 <= r1 <= 3 and 1 <= r2 <= 3 and 0 <= r3 <= 2 and 0 <= i and 1 <= count <= 3
  post: _
  """
  r1 = conc(r1, 1, 3)
  r2 = conc(r2, 1, 3)
  r3 = conc(r3, 0, 2)
  count = conc(count, 1, 3)
  with NoTracing():
    space = _space(r1, r2, r3)
  d = _designer(r1, r2, r3)
  d._current_index = i
  out = d.suggest(count)
  ok = len(out) == count and d._current_index == i + count
  names = ['i', 'c'] + (['d'] if r3 else [])
  for s in out:
    pd = s.parameters.as_dict()
    ok = ok and sorted(pd.keys()) == sorted(names)
    ok = ok and space.contains(s.parameters)
    ok = ok and isinstance(pd['i'], int) and 0 <= pd['i'] <= r1 - 1
    ok = ok and pd['c'] in [chr(97 + k) for k in range(r2)]
    if r3:
      ok = ok and pd['d'] in [0.5 * k for k in range(r3)]
  reach('members')
  return finish(ok, (r1, r2, r3, i, count))


def grid_restart(r1: int, r2: int, i: int, a: int, b: int) -> bool:
  """
  pre: 1 <= r1 <= 3 and 1 <= r2 <= 3 and 0 <= i <= 12 and 1 <= a <= 2 and 1 <= b <= 2
  post: _
  """
  i = conc(i, 0, 12)   # the decimal-string hop of dump/load is decided per concrete index (see smt_decimal for all ints)
  r1 = conc(r1, 1, 3)
  r2 = conc(r2, 1, 3)
  a = conc(a, 1, 2)
  b = conc(b, 1, 2)
  live = _designer(r1, r2)
  live._current_index = i
  live.suggest(a)
  fresh = _designer(r1, r2)
  fresh.load(live.dump())
  x = _vals(live.suggest(b))
  y = _vals(fresh.suggest(b))
  reach('restart')
  return finish(x == y and fresh._current_index == live._current_index == i + a + b, (r1, r2, i, a, b))


def grid_batch_split(r1: int, r2: int, i: int, a: int, b: int) -> bool:
  """
  pre: 1 <= r1 <= 3 and 1 <= r2 <= 3 and 0 <= i and 1 <= a <= 2 and 1 <= b <= 2
  post: _
  """
  r1 = conc(r1, 1, 3)
  r2 = conc(r2, 1, 3)
  a = conc(a, 1, 2)
  b = conc(b, 1, 2)
  d1 = _designer(r1, r2)
  d1._current_index = i
  d2 = _designer(r1, r2)
  d2._current_index = i
  x = _vals(d1.suggest(a)) + _vals(d1.suggest(b))
  y = _vals(d2.suggest(a + b))
  reach('split')
  return finish(x == y, (r1, r2, i, a, b))


def grid_shuffled_restart(seed: int, r1: int, r2: int, i: int, a: int) -> bool:
  """
  pre: -2 <= seed <= 3 and 2 <= r1 <= 3 and 2 <= r2 <= 3 and 0 <= i <= 9 and 1 <= a <= 2
  post: _
  """
  i = conc(i, 0, 9)
  seed = conc(seed, -2, 3)       # negative seeds are legal shuffle seeds too
  r1 = conc(r1, 2, 3)
  r2 = conc(r2, 2, 3)
  a = conc(a, 1, 2)
  live = _designer(r1, r2, 0, seed)
  live._current_index = i
  live.suggest(a)
  # a restarted policy builds the designer without knowing the seed: load() must restore the shuffled order
  fresh = _designer(r1, r2)
  fresh.load(live.dump())
  x = _vals(live.suggest(2))
  y = _vals(fresh.suggest(2))
  # and the shuffled grid is still a bijection onto the grid: period r1*r2
  z = _designer(r1, r2, 0, seed)
  z._current_index = i + r1 * r2
  w = _designer(r1, r2, 0, seed)
  w._current_index = i
  reach('shuffled_restart')
  return finish(x == y and _vals(z.suggest(1)) == _vals(w.suggest(1)), (seed, r1, r2, i, a))


# ---- quasi-random: restart continues the same sequence (engine = real scipy Halton, run natively) ---------------
def quasi_restart(seed: int, other_seed: int, a: int, b: int, c: int) -> bool:
  """
  pre: 0 <= seed <= 2 and 3 <= other_seed <= 5 and 1 <= a <= 2 and 1 <= b <= 2 and 1 <= c <= 2
  post: _
  """
  seed, other_seed, a, b, c = conc(seed, 0, 2), conc(other_seed, 3, 5), conc(a, 1, 2), conc(b, 1, 2), conc(c, 1, 2)
  with NoTracing():
    from vizier._src.algorithms.designers import quasi_random
    space = vz.SearchSpace()
    space.root.add_float_param('f', 0.0, 1.0)
    space.root.add_int_param('i', 0, 9)
    space.root.add_categorical_param('c', ['x', 'y', 'z'])
    live = quasi_random.QuasiRandomDesigner(space, seed=seed)
    want = _vals(live.suggest(a)) + _vals(live.suggest(b)) + _vals(live.suggest(c))
    # the same study with a restart after every request; each fresh instance is built with ANOTHER seed (in the service
    # the constructor seed comes from the clock) and must take everything from the persisted state
    d = quasi_random.QuasiRandomDesigner(space, seed=seed)
    got = _vals(d.suggest(a))
    d2 = quasi_random.QuasiRandomDesigner(space, seed=other_seed)
    d2.load(d.dump())
    got += _vals(d2.suggest(b))
    d3 = quasi_random.QuasiRandomDesigner(space, seed=other_seed + 7)
    d3.load(d2.dump())
    got += _vals(d3.suggest(c))
    ok = got == want
  reach('quasi_restart')
  return finish(ok, (seed, other_seed, a, b, c))


def hosted_grid_once_each(r1: int, r2: int, b1: int, b2: int, b3: int, shuffled: bool) -> bool:
  """
  pre: 1 <= r1 <= 3 and 1 <= r2 <= 3 and 1 <= b1 <= 3 and 1 <= b2 <= 3 and 1 <= b3 <= 3
  post: _
  """
  r1, r2, b1, b2, b3 = conc(r1, 1, 3), conc(r2, 1, 3), conc(b1, 1, 3), conc(b2, 1, 3), conc(b3, 1, 3)
  shuffled = True if shuffled else False
  with NoTracing():
    from vizier._src.algorithms.policies import designer_policy as dp
    from vizier._src.pythia import local_policy_supporters as lps
    problem = vz.ProblemStatement(search_space=_space(r1, r2))
    problem.metric_information.append(vz.MetricInformation('m', goal=vz.ObjectiveMetricGoal.MAXIMIZE))
    sup = lps.InRamPolicySupporter(problem)
    factory = (lambda p, seed=None: grid.GridSearchDesigner(p.search_space, shuffle_seed=3)) if shuffled else \
        (lambda p, seed=None: grid.GridSearchDesigner.from_problem(p))
    seen = []
    total = r1 * r2
    batches = [b1, b2, b3]
    k = 0
    while len(seen) < 2 * total:
      # the service builds a NEW policy for every request: all state must come from the study metadata
      policy = dp.PartiallySerializableDesignerPolicy(sup.study_config, sup, factory)
      trials = sup.SuggestTrials(policy, count=batches[k % 3])
      k += 1
      for t in trials:
        seen.append(tuple(sorted(t.parameters.as_dict().items())))
        t.complete(vz.Measurement({'m': 1.0}))
    first, second = seen[:total], seen[total:2 * total]
    ok = len(set(first)) == total and first == second        # every grid point exactly once before repeating
  reach('hosted_grid')
  return finish(ok, (r1, r2, b1, b2, b3, shuffled))


class _TickingTime:
  """policy_factory.time stand-in: every policy build sees a later second (SHUFFLED_GRID_SEARCH seeds from the clock)."""

  def __init__(self):
    self.now = 1000.0

  def time(self):
    self.now += 1.0
    return self.now


def hosted_grid_via_factory(r1: int, r2: int, b1: int, b2: int, b3: int, shuffled: bool) -> bool:
  """
  pre: 1 <= r1 <= 3 and 1 <= r2 <= 3 and 1 <= b1 <= 3 and 1 <= b2 <= 3 and 1 <= b3 <= 3
  post: _
  """
  r1, r2, b1, b2, b3 = conc(r1, 1, 3), conc(r2, 1, 3), conc(b1, 1, 3), conc(b2, 1, 3), conc(b3, 1, 3)
  shuffled = True if shuffled else False
  with NoTracing():
    from vizier._src.pythia import local_policy_supporters as lps
    from vizier._src.service import policy_factory
    problem = vz.ProblemStatement(search_space=_space(r1, r2))
    problem.metric_information.append(vz.MetricInformation('m', goal=vz.ObjectiveMetricGoal.MAXIMIZE))
    sup = lps.InRamPolicySupporter(problem)
    saved = policy_factory.time
    policy_factory.time = _TickingTime()
    try:
      seen = []
      total = r1 * r2
      batches = [b1, b2, b3]
      k = 0
      while len(seen) < 2 * total:
        # the algorithm exactly as the service hosts it: real policy factory, a NEW policy for every request
        policy = policy_factory.DefaultPolicyFactory()(
            sup.study_config, 'SHUFFLED_GRID_SEARCH' if shuffled else 'GRID_SEARCH', sup, 'study')
        trials = sup.SuggestTrials(policy, count=batches[k % 3])
        k += 1
        for t in trials:
          seen.append(tuple(sorted(t.parameters.as_dict().items())))
          t.complete(vz.Measurement({'m': 1.0}))
    finally:
      policy_factory.time = saved
    first, second = seen[:total], seen[total:2 * total]
    ok = len(set(first)) == total and first == second        # every grid point exactly once before repeating
  reach('hosted_grid_factory')
  return finish(ok, (r1, r2, b1, b2, b3, shuffled))
