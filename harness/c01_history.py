"""C01 over short HISTORIES through the public API: a sequence of RPCs on one long-lived servicer, starting from the empty
service, checked step by step against the sequential reference model (`svc.RefModel` + study creation + suggest).

Complements the one-step obligations: state hidden inside the servicer object (anything cached across calls) can only show
up along a history.  The sequence (4 calls out of a menu of 12) is chosen by the solver; both datastores.

Encoded (real code): VizierServicer.CreateStudy/SetStudyState/DeleteStudy/CreateTrial/SuggestTrials/CompleteTrial/
AddTrialMeasurement/StopTrial/DeleteTrial/GetStudy/ListTrials, both datastores.
"""
import os

from engine.hsupport import NoTracing, cbool, conc, finish, reach
from harness import svc
from harness.svc import ACTIVE, FAILED_PRECONDITION, NOT_FOUND, OK, REQUESTED, S, SUCCEEDED
from vizier._src.service import study_pb2
from vizier._src.service import vizier_service_pb2 as vs

UNBLOCK = ['sqlite3.connect', 'sqlite3.connect/handle']
ASSUMPTIONS = ['histories of 4 calls from a menu of 12, after an initial CreateStudy + SuggestTrials; Pythia stub delivers '
               'exactly what is asked']
MENU = ['CreateStudy', 'SetInactive', 'SetActive', 'DeleteStudy', 'CreateTrial', 'Suggest', 'CompleteNewest', 'AddMeasurement1',
        'StopTrial1', 'DeleteTrial1', 'CompleteTrial1NoFinal', 'SetCompleted']


def _apply(sv, model, name):
  """Runs one menu entry on the service and on the model; returns ok."""
  if name == 'CreateStudy':
    r, e = svc.call(sv.CreateStudy, vs.CreateStudyRequest(parent=svc.OWNER, study=study_pb2.Study(
        display_name='s', study_spec=svc.spec())))
    if model.study is None:
      model.study = {'state': r.state if r is not None else 0, 'trials': {}, 'md': []}
    return e is None and r.name == S and r.state == model.study['state']
  if name in ('SetInactive', 'SetActive', 'SetCompleted'):
    st = {'SetInactive': 2, 'SetActive': 1, 'SetCompleted': 3}[name]
    r, e = svc.call(sv.SetStudyState, vs.SetStudyStateRequest(parent=S, state=st))
    want, _ = model.set_study_state(st)
    return svc.classify(e) == want and (e is not None or r.state == st)
  if name == 'DeleteStudy':
    r, e = svc.call(sv.DeleteStudy, vs.DeleteStudyRequest(name=S))
    want, _ = model.delete_study()
    return svc.classify(e) == want
  if name == 'CreateTrial':
    t = study_pb2.Trial()
    t.parameters.add(parameter_id='x').value.number_value = 0.75
    r, e = svc.call(sv.CreateTrial, vs.CreateTrialRequest(parent=S, trial=t))
    want, wr = model.create_trial(0, None, x=0.75)
    return svc.classify(e) == want and (e is not None or svc.abstract_trial(r) == wr)
  if name == 'Suggest':
    r, e = svc.call(sv.SuggestTrials, vs.SuggestTrialsRequest(parent=S, suggestion_count=1, client_id='w'))
    gate = model._study_gate()
    if gate:
      return svc.classify(e) == gate
    if e is not None or not r.done or r.HasField('error'):
      return False
    trials = vs.SuggestTrialsResponse.FromString(r.response.value).trials
    if len(trials) != 1:
      return False
    tid = int(trials[0].id)
    own = sorted(i for i, t in model.study['trials'].items() if t['state'] == ACTIVE and t['client'] == 'w')
    req = sorted(i for i, t in model.study['trials'].items() if t['state'] == REQUESTED)
    if own:
      return tid == own[0]
    if req:
      if tid not in req:
        return False
      model.study['trials'][tid]['state'] = ACTIVE
      model.study['trials'][tid]['client'] = 'w'
      return True
    if tid != max(list(model.study['trials']) or [0]) + 1:
      return False
    model.study['trials'][tid] = {'id': tid, 'state': ACTIVE, 'client': 'w', 'meas': [], 'final': None, 'reason': '',
                                  'params': [('x', 0.5)], 'md': []}
    return True
  if name == 'CompleteNewest':
    ids = sorted(model.study['trials']) if model.study else []
    tid = ids[-1] if ids else 1
    req = vs.CompleteTrialRequest(name=svc.trial_name(tid))
    req.final_measurement.metrics.add(metric_id='m', value=7.0)
    r, e = svc.call(sv.CompleteTrial, req)
    want, wr = model.complete(tid, 7.0, False)
    return svc.classify(e) == want and (e is not None or svc.abstract_trial(r) == wr)
  if name == 'CompleteTrial1NoFinal':
    r, e = svc.call(sv.CompleteTrial, vs.CompleteTrialRequest(name=svc.trial_name(1)))
    want, wr = model.complete(1, None, False)
    return svc.classify(e) == want and (e is not None or svc.abstract_trial(r) == wr)
  if name == 'AddMeasurement1':
    req = vs.AddTrialMeasurementRequest(trial_name=svc.trial_name(1))
    req.measurement.metrics.add(metric_id='m', value=9.0)
    r, e = svc.call(sv.AddTrialMeasurement, req)
    want, wr = model.add_measurement(1, 9.0)
    if want is None:
      return True
    return svc.classify(e) == want and (e is not None or svc.abstract_trial(r) == wr)
  if name == 'StopTrial1':
    r, e = svc.call(sv.StopTrial, vs.StopTrialRequest(name=svc.trial_name(1)))
    want, wr = model.stop(1)
    return svc.classify(e) == want and (e is not None or svc.abstract_trial(r) == wr)
  if name == 'DeleteTrial1':
    r, e = svc.call(sv.DeleteTrial, vs.DeleteTrialRequest(name=svc.trial_name(1)))
    want, _ = model.delete_trial(1)
    return svc.classify(e) == want
  raise AssertionError(name)


def history(sql: bool, o1: int, o2: int, o3: int, o4: int) -> bool:
  """
  pre: 0 <= o1 <= 11 and 0 <= o2 <= 11 and 0 <= o3 <= 11 and 0 <= o4 <= 11
  post: _
  """
  o1 = conc(o1, 0, 11)
  sl = os.environ.get('VERIF_SLICE')
  if sl is not None and o1 != int(sl):
    return True
  sql = cbool(sql)
  if sql != bool(os.environ.get('VERIF_C01_SQL')):
    return True
  o2, o3, o4 = conc(o2, 0, 11), conc(o3, 0, 11), conc(o4, 0, 11)
  with NoTracing():
    sv = svc.new_servicer(database_url='sqlite:///:memory:' if sql else None)
    model = svc.RefModel(None)
    ok = _apply(sv, model, 'CreateStudy') and _apply(sv, model, 'Suggest')
    step = -1
    for k, o in enumerate((o1, o2, o3, o4)):
      before = svc.abstract(sv)
      ok = ok and _apply(sv, model, MENU[o])
      after = svc.abstract(sv)
      # stored state = model state after every call (metadata aside), lifecycle invariants along the history
      strip = lambda s_: None if s_ is None else {'state': s_['state'], 'trials': s_['trials']}   # noqa: E731
      ok = ok and strip(after) == strip(model.study) and svc.lifecycle_ok(before, after)
      if not ok and step < 0:
        step = k
    # what a client reads at the end
    r, e = svc.call(sv.GetStudy, vs.GetStudyRequest(name=S))
    ok = ok and (svc.classify(e) == (OK if model.study is not None else NOT_FOUND))
    if model.study is not None and e is None:
      ok = ok and r.state == model.study['state']
  reach('history')
  return finish(ok, (sql, o1, o2, o3, o4), obs=None if ok else [MENU[o1], MENU[o2], MENU[o3], MENU[o4], step])
