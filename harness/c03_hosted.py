"""C03 for the algorithms hosted behind the service's policy factory whose suggestions come out of numpy pipelines:
QUASI_RANDOM_SEARCH, NSGA2, EAGLE_STRATEGY, HARMONICA, BOCS, CMA_ES (+ RANDOM_SEARCH, GRID_SEARCH, SHUFFLED_GRID_SEARCH as
controls).  The policy is built by the real DefaultPolicyFactory on an in-RAM policy supporter and REBUILT FOR EVERY
REQUEST, as the service does; trials are completed (some infeasible, some left active) and fed back through the supporter.
The configuration -- algorithm, search space from a menu of boundary shapes (singleton domains, negative / huge / tiny
ranges, integers around 2**24 and 2**53, LOG / REVERSE_LOG scaling, partly boolean spaces), seed-free batch sizes, history
pattern -- is chosen by the solver; the numpy code runs natively on it.

Oracle (from the property text): either the configuration is refused with an error, or every suggestion assigns each
parameter of the space exactly once with a value inside its domain (SearchSpace.contains + explicit type / membership test).

Encoded (real code): policy_factory.DefaultPolicyFactory, designer_policy.*, InRamPolicySupporter, the listed designers,
converters.core (DefaultModelInputConverter / TrialToArrayConverter as used by the designers).
"""
import math
import os

from engine.hsupport import NoTracing, conc, finish, reach
from vizier import pythia
from vizier import pyvizier as vz
from vizier._src.algorithms.policies import designer_policy as dp      # noqa: F401  (imported for the evidence listing)
from vizier._src.pythia import local_policy_supporters
from vizier._src.service import policy_factory

ASSUMPTIONS = [
    'the designers\' numpy code runs natively; the solver chooses algorithm, space shape, batch sizes and history pattern '
    'and every configuration of the stated space is executed',
    'GP designers (DEFAULT/GP_UCB_PE, GAUSSIAN_PROCESS_BANDIT) cannot run in this image (equinox/JAX stack) and are outside',
]
ALGOS = ['QUASI_RANDOM_SEARCH', 'NSGA2', 'EAGLE_STRATEGY', 'HARMONICA', 'BOCS', 'CMA_ES', 'RANDOM_SEARCH', 'GRID_SEARCH',
         'SHUFFLED_GRID_SEARCH']
ROUNDS = 7
B24, B53 = 2 ** 24, 2 ** 53


def _space(k):
  s = vz.SearchSpace()
  r = s.root
  if k == 0:        # one of each type
    r.add_float_param('f', -1.5, 2.5)
    r.add_int_param('i', -3, 4)
    r.add_discrete_param('d', [0.5, 2.0, 7.0])
    r.add_categorical_param('c', ['a', 'b', 'c'])
  elif k == 1:      # singleton domains
    r.add_float_param('f', 3.0, 3.0)
    r.add_int_param('i', 5, 5)
    r.add_discrete_param('d', [2.0])
    r.add_categorical_param('c', ['only'])
    r.add_float_param('g', 0.0, 1.0)
  elif k == 2:      # integers a float32 cannot represent, negative ranges
    r.add_int_param('big', B24 - 5, B24 + 3)
    r.add_int_param('neg', -2 * B24 - 7, -2 * B24 + 1)
    r.add_float_param('f', -1e6, -1e3)
  elif k == 3:      # scale types, tiny and huge ranges
    r.add_float_param('log', 1e-6, 1e3, scale_type=vz.ScaleType.LOG)
    r.add_float_param('rlog', 0.5, 64.0, scale_type=vz.ScaleType.REVERSE_LOG)
    r.add_float_param('tiny', 1.0, 1.0 + 1e-9)
    r.add_float_param('huge', -1e30, 1e30)
    r.add_float_param('rlog2', 0.7, 13.3, scale_type=vz.ScaleType.REVERSE_LOG)      # bounds that are not dyadic
    r.add_float_param('log2', 0.3, 17.9, scale_type=vz.ScaleType.LOG)
    r.add_float_param('lin2', -3.7, 1.1)
  elif k == 4:      # purely boolean
    r.add_bool_param('b1')
    r.add_bool_param('b2')
    r.add_bool_param('b3')
  elif k == 5:      # partly boolean
    r.add_bool_param('b1')
    r.add_categorical_param('opt', ['sgd', 'adam'])
    r.add_int_param('layers', 1, 3)
  elif k == 6:      # purely continuous
    r.add_float_param('x', 0.0, 1.0)
    r.add_float_param('y', -5.0, 5.0)
  elif k == 7:      # discrete with negative / close values, many categories
    r.add_discrete_param('d', [-3.0, -2.999, 0.0, 1e-3, 1e6])
    r.add_categorical_param('c', ['c%d' % i for i in range(12)])
    r.add_int_param('i', B53 - 2, B53)
  return s


N_SPACES = 8


def _in_domain(cfg, value):
  """The property's wording, independent of ParameterConfig.contains."""
  if cfg.type == vz.ParameterType.DOUBLE:
    return isinstance(value, float) and math.isfinite(value) and cfg.bounds[0] <= value <= cfg.bounds[1]
  if cfg.type == vz.ParameterType.INTEGER:
    return isinstance(value, int) and not isinstance(value, bool) and cfg.bounds[0] <= value <= cfg.bounds[1]
  if cfg.type == vz.ParameterType.DISCRETE:
    return isinstance(value, (int, float)) and any(float(value) == float(f) for f in cfg.feasible_values)
  return isinstance(value, str) and str(value) in list(cfg.feasible_values)


def _check(problem, suggestion):
  params = suggestion.parameters
  names = [c.name for c in problem.search_space.parameters]
  if sorted(params.keys()) != sorted(names):
    return 'parameters %s, expected %s' % (sorted(params.keys()), sorted(names))
  for c in problem.search_space.parameters:
    v = params[c.name].value
    if hasattr(v, 'item') and not isinstance(v, str):
      v = v.item()
    if not _in_domain(c, v):
      return '%s = %r (%s) outside %s' % (c.name, v, type(v).__name__, c)
  if not problem.search_space.contains(params):
    return 'SearchSpace.contains is False for %s' % (params.as_dict(),)
  return None


def _run(algo, space, batches, history, args):
  with NoTracing():
    problem = vz.ProblemStatement(search_space=_space(space))
    problem.metric_information.append(vz.MetricInformation(name='m', goal=vz.ObjectiveMetricGoal.MAXIMIZE))
    if algo == 'NSGA2':
      problem.metric_information.append(vz.MetricInformation(name='n', goal=vz.ObjectiveMetricGoal.MINIMIZE))
    supporter = local_policy_supporters.InRamPolicySupporter(problem)
    factory = policy_factory.DefaultPolicyFactory()
    # reproducible schedules: the hosted designers seed themselves from the clock / OS entropy when no seed is given
    import random as _random
    import numpy as _np
    _np.random.seed(20240 + space)
    _random.seed(7 + space)
    why, refused, n_checked = None, None, 0
    for r in range(16 if algo == 'EAGLE_STRATEGY' else (ROUNDS if batches != 4 else 14)):     # (eagle: until the pool is full)
      count = [1, 2, 5][(batches + r) % 3] if batches < 3 else (3 if batches == 3 else 1)
      try:
        policy = factory(problem, algo, supporter, 'study')        # rebuilt per request
        if hasattr(policy, '_seed') and policy._seed is None and 'GRID' not in algo:   # (a grid seed means: shuffle)
          policy._seed = 11 + r                                    # = constructing the policy with an explicit seed
        decision = policy.suggest(pythia.SuggestRequest(study_descriptor=supporter.study_descriptor(), count=count))
      except (ValueError, NotImplementedError, TypeError, KeyError, ImportError, AttributeError) as e:
        refused = '%s: %s' % (type(e).__name__, str(e)[:120])      # "refused with an error" is allowed
        break
      for s in decision.suggestions:
        why = _check(problem, s)
        n_checked += 1
        if why:
          break
      if why:
        break
      # persist algorithm state like the service does, then report results
      supporter._UpdateMetadata(decision.metadata)
      trials = supporter.AddSuggestions(decision.suggestions)
      for j, t in enumerate(trials):
        mode = (history + j + r) % 4 if history else 0
        if mode == 3:
          continue                                                  # left ACTIVE
        if mode == 2:
          t.complete(vz.Measurement(), infeasibility_reason='x')
        else:
          val = float(sum(sum(map(ord, repr(v.value))) % 97 for v in t.parameters.values())) / 97.0
          t.complete(vz.Measurement({'m': val, 'n': 1.0 - val} if algo == 'NSGA2' else {'m': val}))
    ok = why is None
  reach('hosted_%s' % ('refused' if refused else 'suggested'))
  return finish(ok, args, obs=[algo, space, refused, n_checked, why])


def hosted_in_space(algo: int, space: int, batches: int, history: int) -> bool:
  """
  pre: 0 <= algo <= 8 and 0 <= space <= 7 and 0 <= batches <= 4 and 0 <= history <= 2
  post: _
  """
  algo = conc(algo, 0, len(ALGOS) - 1)
  sl = os.environ.get('VERIF_SLICE')
  if sl is not None and algo != int(sl):
    return True
  space, batches, history = conc(space, 0, N_SPACES - 1), conc(batches, 0, 4), conc(history, 0, 2)
  return _run(ALGOS[algo], space, batches, history, (algo, space, batches, history))
