"""C06: a failing / mis-delivering algorithm is reported and never wedges the study.

Encoded (real code): VizierServicer.SuggestTrials / CheckTrialEarlyStoppingState / GetOperation / CompleteTrial,
NestedDictRAMDataStore operation tables, SuggestConverter / EarlyStopConverter, metadata_util.  The algorithm side is a
fault-injecting Pythia stub (the exception classes are those a local PythiaServicer (RuntimeError), a remote one
(grpc.RpcError) or policy code (ValueError / KeyError / custom Exception) produce).
"""
import grpc
from engine.hsupport import NoTracing, conc, finish, reach
from harness import svc
from harness.svc import ACTIVE, REQUESTED, S
from vizier._src.service import grpc_util
from vizier._src.service import pythia_service_pb2
from vizier._src.service import vizier_oss_pb2
from vizier._src.service import vizier_service_pb2 as vs

ASSUMPTIONS = [
    'algorithm = fault-injecting Pythia stub: raises RuntimeError / grpc.RpcError / ValueError / KeyError / custom '
    'Exception, or delivers fewer/more suggestions than asked, or returns metadata for a missing trial',
    'fault at the first call only, or at every call',
]


class _Custom(Exception):
  pass


def _exc(kind):
  if kind == 0:
    return RuntimeError('Pythia has encountered an error: boom')     # what a local PythiaServicer raises
  if kind == 1:
    e = grpc_util.LocalRpcError('remote pythia failed')               # what a remote Pythia produces (grpc.RpcError)
    e.set_code(grpc.StatusCode.UNKNOWN)
    return e
  if kind == 2:
    return ValueError('bad value')
  if kind == 3:
    return KeyError('missing')
  return _Custom('custom')


class FaultyPythia(svc.StubPythia):

  def __init__(self, fault, every, off):
    super().__init__()
    self.fault, self.every, self.off = fault, every, off

  def _faulty_now(self):
    return self.every or self.calls == 1

  def Suggest(self, req):
    self.calls += 1
    self.asked.append(req.count)
    n = req.count
    if self._faulty_now():
      if self.fault <= 4:
        raise _exc(self.fault)
      if self.fault == 5:
        n = max(0, req.count + self.off)
    d = pythia_service_pb2.SuggestDecision()
    for _ in range(n):
      s = d.suggestions.add()
      s.parameters.add(parameter_id='x').value.number_value = 0.5
    if self.fault == 6 and self._faulty_now():
      u = d.metadata.add()
      u.trial_id = '99'                       # metadata addressed to a trial that does not exist
      u.metadatum.key, u.metadatum.ns, u.metadatum.value = 'k', '', 'v'
    return d

  def EarlyStop(self, req):
    self.calls += 1
    if self._faulty_now() and self.fault <= 4:
      raise _exc(self.fault)
    d = pythia_service_pb2.EarlyStopDecisions()
    for tid in req.trial_ids:
      d.decisions.add(id=tid, should_stop=False, reason='keep going')
    return d


def _ops(sv, client):
  try:
    return sv.datastore.list_suggestion_operations(S, client)
  except Exception:  # noqa
    return []


def suggest_fault_same_worker(fault: int, every: bool, off: int, a: int, r: int, n: int) -> bool:
  """
  pre: 0 <= fault <= 6 and -2 <= off <= 2 and 0 <= a <= 1 and 0 <= r <= 1 and 1 <= n <= 3
  post: _
  """
  return _suggest_fault(fault, every, off, a, r, n, 0)


def suggest_fault_other_worker(fault: int, every: bool, off: int, a: int, r: int, n: int) -> bool:
  """
  pre: 0 <= fault <= 6 and -2 <= off <= 2 and 0 <= a <= 1 and 0 <= r <= 1 and 1 <= n <= 3
  post: _
  """
  return _suggest_fault(fault, every, off, a, r, n, 1)


def suggest_fault_then_complete(fault: int, every: bool, off: int, a: int, r: int, n: int) -> bool:
  """
  pre: 0 <= fault <= 6 and -2 <= off <= 2 and 0 <= a <= 1 and 0 <= r <= 1 and 1 <= n <= 3
  post: _
  """
  return _suggest_fault(fault, every, off, a, r, n, 2)


def _suggest_fault(fault, every, off, a, r, n, follow):
  fault, off, a, r, n = conc(fault, 0, 6), conc(off, -2, 2), conc(a, 0, 1), conc(r, 0, 1), conc(n, 1, 3)
  every = True if every else False
  if fault != 5 and off != 0:
    return True
  with NoTracing():
    py = FaultyPythia(fault, every, off)
    sv = svc.new_servicer(pythia=py)
    svc.add_study(sv)
    tid = 0
    for _ in range(a):
      tid += 1
      sv.datastore.create_trial(svc.make_trial(tid, ACTIVE, client='w', n_meas=1))
    for _ in range(r):
      tid += 1
      sv.datastore.create_trial(svc.make_trial(tid, REQUESTED))
    tid += 1
    sv.datastore.create_trial(svc.make_trial(tid, ACTIVE, client='v', n_meas=1))
  before = svc.abstract(sv)
  need = max(0, n - a - r)
  args = (fault, every, off, a, r, n)
  op, exc = svc.call(sv.SuggestTrials, vs.SuggestTrialsRequest(parent=S, suggestion_count=n, client_id='w'))
  reach('first:%s' % ('raised' if exc is not None else 'op'))
  ok = True
  # (1) reported: a finished operation (with response or error) or an error raised to the caller
  if exc is None:
    ok = ok and op.done
    if need > 0 and fault <= 4:
      ok = ok and op.HasField('error')           # the failure is visible in the finished operation
    if op.HasField('response') and not op.HasField('error'):
      resp = vs.SuggestTrialsResponse.FromString(op.response.value)
      delivered = need if (fault != 5 or need == 0) else max(0, need + off)
      ok = ok and len(resp.trials) == min(n, a + r + delivered)      # a short delivery is handed out as it is
  # (2) never wedged: no unfinished operation of this worker is left behind, whatever happened
  ok = ok and all(o.done for o in _ops(sv, 'w'))
  mid = svc.abstract(sv)
  ok = ok and svc.lifecycle_ok(before, mid)
  if not ok:
    return finish(False, args, obs='after first call')
  # (3) the study stays usable: follow-up calls
  calls = py.calls
  if follow == 0:      # same worker asks again
    op2, exc2 = svc.call(sv.SuggestTrials, vs.SuggestTrialsRequest(parent=S, suggestion_count=n, client_id='w'))
    own_now = len([t for t in mid['trials'].values() if t['state'] == ACTIVE and t['client'] == 'w'])
    req_now = len([t for t in mid['trials'].values() if t['state'] == REQUESTED])
    if own_now + req_now < n:
      ok = ok and py.calls == calls + 1          # reaches the algorithm again, not an abandoned operation
    if exc2 is None:
      ok = ok and op2.done
      if not every and not op2.HasField('error'):
        resp2 = vs.SuggestTrialsResponse.FromString(op2.response.value)
        ok = ok and len(resp2.trials) == n
    ok = ok and all(o.done for o in _ops(sv, 'w'))
  elif follow == 1:    # another worker asks
    op2, exc2 = svc.call(sv.SuggestTrials, vs.SuggestTrialsRequest(parent=S, suggestion_count=1, client_id='v'))
    ok = ok and exc2 is None and op2.done and not op2.HasField('error')
    if ok:
      ok = len(vs.SuggestTrialsResponse.FromString(op2.response.value).trials) == 1
  else:                # completing an existing trial still works
    req = vs.CompleteTrialRequest(name=svc.trial_name(tid))
    t, exc2 = svc.call(sv.CompleteTrial, req)
    ok = ok and exc2 is None and t.state == svc.SUCCEEDED
  ok = ok and svc.lifecycle_ok(mid, svc.abstract(sv))
  reach('follow%d' % follow)
  return finish(ok, args, obs='follow-up')


def earlystop_fault(fault: int, every: bool, t_state: int, pre_op: int, follow: int) -> bool:
  """
  pre: 0 <= fault <= 4 and 2 <= t_state <= 3 and 0 <= pre_op <= 1 and 0 <= follow <= 1
  post: _
  """
  fault, t_state, pre_op, follow = conc(fault, 0, 4), conc(t_state, 2, 3), conc(pre_op, 0, 1), conc(follow, 0, 1)
  every = True if every else False
  with NoTracing():
    py = FaultyPythia(fault, every, 0)
    sv = svc.new_servicer(pythia=py)
    svc.add_study(sv)
    sv.datastore.create_trial(svc.make_trial(1, t_state, client='w', n_meas=1))
    sv.datastore.create_trial(svc.make_trial(2, ACTIVE, client='v', n_meas=1))
    if pre_op:   # an old finished early-stopping operation exists (long ago): it will be recycled
      o = vizier_oss_pb2.EarlyStoppingOperation(name=svc_es_name(1),
                                                status=vizier_oss_pb2.EarlyStoppingOperation.Status.DONE)
      o.completion_time.FromSeconds(10)      # long before the harness clock (1000 s)
      sv.datastore.create_early_stopping_operation(o)
  before = svc.abstract(sv)
  args = (fault, every, t_state, pre_op, follow)
  r1, exc1 = svc.call(sv.CheckTrialEarlyStoppingState, vs.CheckTrialEarlyStoppingStateRequest(trial_name=svc.trial_name(1)))
  ok = exc1 is not None          # the algorithm failed: the caller must see an error (there is no op handle to inspect)
  calls = py.calls
  ok = ok and calls == 1
  reach('es_first')
  svc.CLOCK[0] += 3600         # later than any recycle period: a finished operation may be recycled, an ACTIVE one never
  if follow == 0:
    r2, exc2 = svc.call(sv.CheckTrialEarlyStoppingState, vs.CheckTrialEarlyStoppingStateRequest(trial_name=svc.trial_name(1)))
    ok = ok and py.calls == calls + 1          # reaches the algorithm again instead of an abandoned ACTIVE operation
    if not every:
      ok = ok and exc2 is None and r2.should_stop is False
  else:
    op2, exc2 = svc.call(sv.SuggestTrials, vs.SuggestTrialsRequest(parent=S, suggestion_count=2, client_id='w'))
    if not every:
      ok = ok and exc2 is None and op2.done and not op2.HasField('error')
  ok = ok and svc.lifecycle_ok(before, svc.abstract(sv))
  return finish(ok, args)


def svc_es_name(tid):
  from vizier._src.service import resources
  return resources.EarlyStoppingOperationResource('o', 's', tid).name


# ---- the same with the REAL PythiaServicer and a policy whose early_stop raises (the fault travels through the Pythia layer) --
class _EsPolicy:
  calls = 0
  fail = None

  def suggest(self, request):
    from vizier import pythia
    from vizier import pyvizier as vz
    return pythia.SuggestDecision([vz.TrialSuggestion({'x': 0.5}) for _ in range(request.count)])

  def early_stop(self, request):
    from vizier import pythia
    _EsPolicy.calls += 1
    if _EsPolicy.fail is not None:
      raise _EsPolicy.fail
    return pythia.EarlyStopDecisions([pythia.EarlyStopDecision(id=i, reason='r', should_stop=False)
                                      for i in (request.trial_ids or [1])])


class _Custom(Exception):
  pass


def earlystop_policy_fault(kind: int, every: bool, pre_op: int) -> bool:
  """
  pre: 0 <= kind <= 4 and 0 <= pre_op <= 1
  post: _
  """
  kind, every, pre_op = conc(kind, 0, 4), (True if every else False), conc(pre_op, 0, 1)
  with NoTracing():
    from vizier._src.service import pythia_service
    sv = svc.new_servicer()
    sv.default_pythia_service = pythia_service.PythiaServicer(sv, policy_factory=lambda *a, **k: _EsPolicy())
    svc.add_study(sv)
    sv.datastore.create_trial(svc.make_trial(1, ACTIVE, client='w', n_meas=1))
    if pre_op:
      o = vizier_oss_pb2.EarlyStoppingOperation(name=svc_es_name(1),
                                                status=vizier_oss_pb2.EarlyStoppingOperation.Status.DONE)
      o.completion_time.FromSeconds(10)
      sv.datastore.create_early_stopping_operation(o)
    _EsPolicy.calls = 0
    _EsPolicy.fail = [ValueError('bad'), NotImplementedError('no early stopping'), ZeroDivisionError('div'), _Custom('x'),
                      KeyError('k')][kind]
    before = svc.abstract(sv)
    req = vs.CheckTrialEarlyStoppingStateRequest(trial_name=svc.trial_name(1))
    r1, exc1 = svc.call(sv.CheckTrialEarlyStoppingState, req)
    ok = exc1 is not None and _EsPolicy.calls == 1          # whatever the algorithm raises is reported to the caller
    op = sv.datastore.get_early_stopping_operation(svc_es_name(1))
    ok = ok and op.status != vizier_oss_pb2.EarlyStoppingOperation.Status.ACTIVE      # ... and nothing is left pending
    if not every:
      _EsPolicy.fail = None
    svc.CLOCK[0] += 3600
    r2, exc2 = svc.call(sv.CheckTrialEarlyStoppingState, req)
    ok = ok and _EsPolicy.calls == 2                         # the next check (after the recycle period) reaches the algorithm
    if not every:
      ok = ok and exc2 is None and r2.should_stop is False
    ok = ok and svc.lifecycle_ok(before, svc.abstract(sv))
    _EsPolicy.fail = None
  reach('es_policy_fault')
  return finish(ok, (kind, every, pre_op))
