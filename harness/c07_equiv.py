"""C07 (and the store part of C10): RAM and SQL datastores are observationally equivalent behind the service.

Simulation step: the same symbolic pre-state is loaded into a VizierServicer on NestedDictRAMDataStore and into one on
SQLDataStore (REAL sqlalchemy + in-memory sqlite, run outside tracing); ONE RPC with symbolic arguments runs on both; post:
same outcome class, same response, same abstract stored state (study state, trials, metadata) -- and, for metadata updates,
the stored metadata equals a last-writer-wins dict oracle / is unchanged after a failed update.

Encoded (real code): VizierServicer.* RPCs, NestedDictRAMDataStore.*, SQLDataStore.* (real SQL), metadata_util.merge_*.
"""
from engine.hsupport import NoTracing, cbool, conc, finish, reach
from harness import svc
from harness.svc import ABSENT, ACTIVE, INFEASIBLE, REQUESTED, S, STOPPING, SUCCEEDED
from vizier._src.service import key_value_pb2
from vizier._src.service import study_pb2
from vizier._src.service import vizier_service_pb2 as vs

UNBLOCK = ['sqlite3.connect', 'sqlite3.connect/handle']
ASSUMPTIONS = [
    'SQL backend = real sqlalchemy + sqlite (in-memory) executed outside tracing on the branch-concretised state',
    'pre-state as in C01 (study missing/4 states, trial 1 any state, bystander trial 2), same state loaded in both',
    'file-backed SQLite differs from in-memory SQLite only below sqlalchemy (exercised by the C05 crash harness)',
]


def _load(sv, study_state, t1, m1, t2, md):
  if study_state < 0:
    return
  svc.add_study(sv, state=study_state)
  if t1 != ABSENT:
    t = svc.make_trial(1, t1, client='w' if t1 in (ACTIVE, STOPPING) else '', n_meas=m1,
                       final=1.5 if t1 == SUCCEEDED else None, reason='why' if t1 == INFEASIBLE else '')
    if md:
      t.metadata.add(key='k', ns='', value='old')
      t.metadata.add(key='k', ns=':algo').proto.Pack(study_pb2.Trial(id='55', state=2))
    sv.datastore.create_trial(t)
  if t2 == 1:
    sv.datastore.create_trial(svc.make_trial(2, ACTIVE, client='v', n_meas=1))
  elif t2 == 2:
    sv.datastore.create_trial(svc.make_trial(2, SUCCEEDED, client='v', n_meas=1, final=2.5))
  if md:
    st = sv.datastore.load_study(S)
    st.study_spec.metadata.add(key='k', ns='', value='old')
    st.study_spec.metadata.add(key='z', ns=':algo', value='keep')
    sv.datastore.update_study(st)


S2 = 'owners/q/studies/s'        # another owner's study with the SAME study id and the same trial ids
SIBLINGS = ['owners/o/studies/S', 'owners/o/studies/_']


def _pair(study_state, t1, m1, t2, md=False):
  ram = svc.new_servicer()
  sql = svc.new_servicer(database_url='sqlite:///:memory:')
  for sv in (ram, sql):
    _load(sv, study_state, t1, m1, t2, md)
    svc.add_study(sv, state=1, name=S2)
    sv.datastore.create_trial(svc.make_trial(1, SUCCEEDED, client='z', n_meas=1, final=4.5, study=S2))
    sv.datastore.create_trial(svc.make_trial(2, ACTIVE, client='z', study=S2))
    # sibling studies of the same owner whose ids differ only in case / by a character that is a wildcard in SQL LIKE
    for sib in SIBLINGS:
      svc.add_study(sv, state=1, name=sib, display=sib.split('/')[-1])
      sv.datastore.create_trial(svc.make_trial(7, REQUESTED, study=sib))
  return ram, sql


def _obs(resp):
  """Comparable form of an RPC response."""
  if resp is None:
    return None
  name = type(resp).__name__
  if name == 'Trial':
    return svc.abstract_trial(resp)
  if name == 'ListTrialsResponse':
    return sorted((svc.abstract_trial(t) for t in resp.trials), key=lambda d: d['id'])
  if name == 'ListOptimalTrialsResponse':
    return sorted(int(t.id) for t in resp.optimal_trials)
  if name == 'Study':
    return (resp.name, resp.state, sorted((kv.ns, kv.key, kv.value) for kv in resp.study_spec.metadata))
  if name == 'ListStudiesResponse':
    return sorted(s.name for s in resp.studies)
  if name == 'Operation':
    out = [resp.name, resp.done, resp.HasField('error')]
    if resp.HasField('response'):
      r = vs.SuggestTrialsResponse.FromString(resp.response.value)
      out.append([svc.abstract_trial(t) for t in r.trials])
    return out
  if name == 'UpdateMetadataResponse':
    return bool(resp.error_details)
  if name == 'CheckTrialEarlyStoppingStateResponse':
    return resp.should_stop
  return name


def _request(op, target, a, b):
  """(method name, request) for operation kind `op`."""
  tn = svc.trial_name(target)
  if op == 0:
    r = vs.CompleteTrialRequest(name=tn, trial_infeasible=bool(a))
    if b == 1:
      r.final_measurement.metrics.add(metric_id='m', value=7.0)
    elif b == 2:
      r.final_measurement.step_count = 3
    return 'CompleteTrial', r
  if op == 1:
    r = vs.AddTrialMeasurementRequest(trial_name=tn)
    r.measurement.metrics.add(metric_id='m', value=9.0)
    return 'AddTrialMeasurement', r
  if op == 2:
    return 'StopTrial', vs.StopTrialRequest(name=tn)
  if op == 3:
    return 'DeleteTrial', vs.DeleteTrialRequest(name=tn)
  if op == 4:
    t = study_pb2.Trial(state=SUCCEEDED if a else 0)
    t.parameters.add(parameter_id='x').value.number_value = 0.75
    if a:
      t.final_measurement.metrics.add(metric_id='m', value=3.0)
    return 'CreateTrial', vs.CreateTrialRequest(parent=S, trial=t)
  if op == 5:
    return [('GetTrial', vs.GetTrialRequest(name=tn)), ('ListTrials', vs.ListTrialsRequest(parent=S)),
            ('GetStudy', vs.GetStudyRequest(name=S))][b]
  if op == 6:
    return 'SetStudyState', vs.SetStudyStateRequest(parent=S, state=b)
  if op == 7:
    return 'DeleteStudy', vs.DeleteStudyRequest(name=S)
  if op == 9:
    return 'SuggestTrials', vs.SuggestTrialsRequest(parent=S, suggestion_count=1 + b, client_id='w' if a else 'v')
  if op == 10:
    return 'CheckTrialEarlyStoppingState', vs.CheckTrialEarlyStoppingStateRequest(trial_name=tn)
  if op == 11:
    return 'ListOptimalTrials', vs.ListOptimalTrialsRequest(parent=S)
  if op == 12:
    return 'CreateStudy', vs.CreateStudyRequest(parent=svc.OWNER, study=study_pb2.Study(
        display_name='s' if a else 'other', study_spec=svc.spec()))
  if op == 13:
    return 'ListStudies', vs.ListStudiesRequest(parent=svc.OWNER if a else 'owners/nobody')
  raise AssertionError(op)


def _step(op, study_state, t1, m1, t2, target, a, b, args):
  with NoTracing():
    ram, sql = _pair(study_state, t1, m1, t2)
    before = svc.abstract(ram)
    method, req = _request(op, target, a, b)
    r1, e1 = svc.call(getattr(ram, method), req)
    method, req = _request(op, target, a, b)
    r2, e2 = svc.call(getattr(sql, method), req)
    c1, c2 = svc.classify(e1), svc.classify(e2)
    ok = c1 == c2 and _obs(r1) == _obs(r2) and svc.abstract(ram) == svc.abstract(sql)
    other = svc.abstract(ram, S2)
    ok = ok and other == svc.abstract(sql, S2) and len(other['trials']) == 2 and other['trials'][1]['final'] == [('m', 4.5)] \
        and other['trials'][2]['state'] == ACTIVE and other['md'] == []      # the other owner's study is never touched
    for sib in SIBLINGS:
      a1, a2 = svc.abstract(ram, sib), svc.abstract(sql, sib)
      ok = ok and a1 == a2 and list(a1['trials']) == [7] and a1['trials'][7]['state'] == REQUESTED
    ok = ok and svc.lifecycle_ok(before, svc.abstract(sql))
    # a later, unrelated call that makes the SQL layer roll back (CreateStudy for an owner that already exists hits the
    # owners primary key) must not undo or alter what the call under test did: nothing may be left uncommitted
    if ok and method != 'CreateStudy':
      snap1, snap2 = svc.abstract(ram), svc.abstract(sql)
      for sv in (ram, sql):
        svc.call(sv.CreateStudy, vs.CreateStudyRequest(parent='owners/q', study=study_pb2.Study(
            display_name='later', study_spec=svc.spec())))
      ok = svc.abstract(ram) == snap1 and svc.abstract(sql) == snap2
    tag = '%s:%s' % (method, c1)
  reach(tag)
  return finish(ok, args, obs=[tag, c2])


def _st(study_state, t1, m1, t2):
  return conc(study_state, -1, 3), conc(t1, 0, 5), conc(m1, 0, 1), conc(t2, 0, 2)


def eq_complete(study_state: int, t1: int, m1: int, t2: int, target: int, a: bool, b: int) -> bool:
  """
  pre: -1 <= study_state <= 3 and 0 <= t1 <= 5 and 0 <= m1 <= 1 and 0 <= t2 <= 2 and 1 <= target <= 3 and 0 <= b <= 2
  post: _
  """
  study_state, t1, m1, t2 = _st(study_state, t1, m1, t2)
  target, a, b = conc(target, 1, 3), cbool(a), conc(b, 0, 2)
  return _step(0, study_state, t1, m1, t2, target, a, b, (study_state, t1, m1, t2, target, a, b))


def eq_trial_mutations(op: int, study_state: int, t1: int, m1: int, t2: int, target: int) -> bool:
  """
  pre: 1 <= op <= 3 and -1 <= study_state <= 3 and 0 <= t1 <= 5 and 0 <= m1 <= 1 and 0 <= t2 <= 2 and 1 <= target <= 3
  post: _
  """
  op = conc(op, 1, 3)
  study_state, t1, m1, t2 = _st(study_state, t1, m1, t2)
  target = conc(target, 1, 3)
  return _step(op, study_state, t1, m1, t2, target, False, 0, (op, study_state, t1, m1, t2, target))


def eq_create_trial(study_state: int, t1: int, t2: int, a: bool) -> bool:
  """
  pre: -1 <= study_state <= 3 and 0 <= t1 <= 5 and 0 <= t2 <= 2
  post: _
  """
  study_state, t1, m1, t2 = _st(study_state, t1, 0, t2)
  a = cbool(a)
  return _step(4, study_state, t1, 0, t2, 1, a, 0, (study_state, t1, t2, a))


def eq_reads(which: int, study_state: int, t1: int, m1: int, t2: int, target: int) -> bool:
  """
  pre: 0 <= which <= 2 and -1 <= study_state <= 3 and 0 <= t1 <= 5 and 0 <= m1 <= 1 and 0 <= t2 <= 2 and 1 <= target <= 3
  post: _
  """
  which = conc(which, 0, 2)
  study_state, t1, m1, t2 = _st(study_state, t1, m1, t2)
  target = conc(target, 1, 3)
  if which != 0 and target != 1:
    return True
  return _step(5, study_state, t1, m1, t2, target, False, which, (which, study_state, t1, m1, t2, target))


def eq_study_ops(op: int, study_state: int, t1: int, t2: int, a: bool, b: int) -> bool:
  """
  pre: 6 <= op <= 13 and -1 <= study_state <= 3 and 0 <= t1 <= 5 and 0 <= t2 <= 2 and 0 <= b <= 3
  post: _
  """
  op = conc(op, 6, 13)
  if op in (8, 9, 10):
    return True
  study_state, t1, m1, t2 = _st(study_state, t1, 1, t2)
  a, b = cbool(a), conc(b, 0, 3)
  if op != 6 and b:
    return True
  if op in (6, 7, 11) and a:
    return True
  return _step(op, study_state, t1, 1, t2, 1, a, b, (op, study_state, t1, t2, a, b))


def eq_suggest(study_state: int, t1: int, t2: int, a: bool, b: int) -> bool:
  """
  pre: -1 <= study_state <= 3 and 0 <= t1 <= 5 and 0 <= t2 <= 2 and 0 <= b <= 1
  post: _
  """
  study_state, t1, m1, t2 = _st(study_state, t1, 1, t2)
  a, b = cbool(a), conc(b, 0, 1)
  return _step(9, study_state, t1, 1, t2, 1, a, b, (study_state, t1, t2, a, b))


def eq_earlystop(study_state: int, t1: int, t2: int, target: int) -> bool:
  """
  pre: -1 <= study_state <= 3 and 0 <= t1 <= 5 and 0 <= t2 <= 2 and 1 <= target <= 3
  post: _
  """
  study_state, t1, m1, t2 = _st(study_state, t1, 1, t2)
  target = conc(target, 1, 3)
  return _step(10, study_state, t1, 1, t2, target, False, 0, (study_state, t1, t2, target))


# ---- metadata: last-writer-wins store, identical on both back ends (C10 store + C07) ----------------------------
_MD_KEYS = [('', 'k'), (':algo', 'k'), ('', 'new'), (':algo', 'z'), ('::x', 'k')]


def _md_args(study_state, t1, t2, u1, u2, u3, tgt1, tgt2, tgt3, n, as_proto, nmax, kmax):
  t1 = [0, ACTIVE, SUCCEEDED, REQUESTED, INFEASIBLE, STOPPING][conc(t1, 0, 5)]
  t2 = conc(t2, 0, 1)
  n, as_proto = conc(n, 1, nmax), cbool(as_proto)
  us = [conc(u1, 0, kmax), conc(u2, 0, kmax), conc(u3, 0, kmax)][:n]
  tgts = [conc(tgt1, 0, 3), conc(tgt2, 0, 3), conc(tgt3, 0, 3)][:n]      # 0 = study, 1..3 = trial id (3 never exists)
  return t1, t2, n, as_proto, us, tgts


def update_metadata_active(t1: int, t2: int, u1: int, u2: int, tgt1: int, tgt2: int, n: int, as_proto: bool) -> bool:
  """
  pre: 0 <= t1 <= 2 and 0 <= t2 <= 1 and 0 <= u1 <= 2 and 0 <= u2 <= 2 and 0 <= tgt1 <= 3 and 0 <= tgt2 <= 3 and 1 <= n <= 2
  post: _
  """
  args = (t1, t2, u1, u2, tgt1, tgt2, n, as_proto)
  t1, t2, n, as_proto, us, tgts = _md_args(1, t1, t2, u1, u2, 0, tgt1, tgt2, 0, n, as_proto, 2, 2)
  return _update_metadata(1, t1, t2, us, tgts, as_proto, args)


def update_metadata_other_states(study_state: int, t1: int, u1: int, tgt1: int, as_proto: bool) -> bool:
  """
  pre: -1 <= study_state <= 3 and study_state != 1 and 0 <= t1 <= 2 and 0 <= u1 <= 2 and 0 <= tgt1 <= 3
  post: _
  """
  args = (study_state, t1, u1, tgt1, as_proto)
  study_state = conc(study_state, -1, 3)
  t1, t2, n, as_proto, us, tgts = _md_args(study_state, t1, 1, u1, 0, 0, tgt1, 0, 0, 1, as_proto, 1, 2)
  return _update_metadata(study_state, t1, t2, us, tgts, as_proto, args)


def update_metadata_three(t1: int, u1: int, u2: int, u3: int, tgt1: int, tgt2: int, tgt3: int, as_proto: bool) -> bool:
  """
  pre: 0 <= t1 <= 5 and 0 <= u1 <= 4 and 0 <= u2 <= 4 and 0 <= u3 <= 4 and 0 <= tgt1 <= 3 and 0 <= tgt2 <= 3 and 0 <= tgt3 <= 3
  post: _
  """
  import os
  args = (t1, u1, u2, u3, tgt1, tgt2, tgt3, as_proto)
  u1, tgt1 = conc(u1, 0, 4), conc(tgt1, 0, 3)          # the slicing variables first: a slice explores only its own paths
  sl = os.environ.get('VERIF_SLICE')
  if sl is not None and (u1 * 4 + tgt1) % 10 != int(sl):
    return True
  t1c, t2, n, as_proto, us, tgts = _md_args(1, t1, 1, u1, u2, u3, tgt1, tgt2, tgt3, 3, as_proto, 3, 4)
  return _update_metadata(1, t1c, t2, us, tgts, as_proto, args)


_BAD_IDS = {4: '0', 5: 'abc', 6: '-1', 7: '1/x'}      # targets 4..7: trial ids no trial can have


def update_metadata_bad_id(t1: int, u1: int, u2: int, bad: int, first: bool, tgt: int) -> bool:
  """
  pre: 0 <= t1 <= 2 and 0 <= u1 <= 2 and 0 <= u2 <= 2 and 4 <= bad <= 7 and 0 <= tgt <= 1
  post: _
  """
  args = (t1, u1, u2, bad, first, tgt)
  t1, u1, u2, bad, first, tgt = conc(t1, 0, 2), conc(u1, 0, 2), conc(u2, 0, 2), conc(bad, 4, 7), cbool(first), conc(tgt, 0, 1)
  # one valid item (study-level or trial 1) and one item naming an impossible trial id, in either order
  us, tgts = ([u2, u1], [bad, tgt]) if first else ([u1, u2], [tgt, bad])
  return _update_metadata(1, [0, ACTIVE, SUCCEEDED][t1], 1, us, tgts, False, args)


def _update_metadata(study_state, t1, t2, us, tgts, as_proto, args):
  with NoTracing():
    ram, sql = _pair(study_state, t1, 0, t2, md=True)
    before = svc.abstract(ram)
    ok = before == svc.abstract(sql)
    outs = []
    for sv in (ram, sql):
      req = vs.UpdateMetadataRequest(name=S)
      for i, (u, tg) in enumerate(zip(us, tgts)):
        ns, key = _MD_KEYS[u]
        d = req.delta.add()
        if tg:
          d.trial_id = _BAD_IDS.get(tg, str(tg))
        d.metadatum.key, d.metadatum.ns = key, ns
        if as_proto and i == 0:
          d.metadatum.proto.Pack(study_pb2.Trial())        # an all-defaults message: its serialization is empty
        else:
          d.metadatum.value = 'v%d' % i
      resp, exc = svc.call(sv.UpdateMetadata, req)
      outs.append((svc.classify(exc), _obs(resp), svc.abstract(sv)))
    (c1, o1, a1), (c2, o2, a2) = outs
    ok = ok and c1 == c2 and o1 == o2 and a1 == a2
    # oracle: last writer wins per (target, ns, key); an update naming a missing trial reports an error, changes nothing
    if before is None:
      ok = ok and c1 == svc.NOT_FOUND
    elif before['state'] not in svc.MUTABLE_STUDY:
      ok = ok and c1 == svc.FAILED_PRECONDITION and a1 == before
    else:
      missing = [tg for tg in tgts if tg and tg not in before['trials']]
      if missing:
        ok = ok and (c1 != svc.OK or o1 is True) and a1 == before and a2 == before
      else:
        want = {0: {(ns_, k_): v_ for ns_, k_, v_ in before['md']}}
        for tid, t in before['trials'].items():
          want[tid] = {(ns_, k_): v_ for ns_, k_, v_ in t['md']}
        for i, (u, tg) in enumerate(zip(us, tgts)):
          want[tg][_MD_KEYS[u]] = 'proto:type.googleapis.com/vizier.Trial:' if (as_proto and i == 0) else 'v%d' % i
        got = {0: {(ns_, k_): v_ for ns_, k_, v_ in a1['md']}}
        for tid, t in a1['trials'].items():
          got[tid] = {(ns_, k_): v_ for ns_, k_, v_ in t['md']}
        ok = ok and c1 == svc.OK and o1 is False and got == want
        # everything but metadata untouched
        strip = lambda s_: {'state': s_['state'], 'trials': {i: dict(t, md=None) for i, t in s_['trials'].items()}}  # noqa: E731
        ok = ok and strip(a1) == strip(before)
    if ok:      # nothing may be left uncommitted: a later call that makes the SQL layer roll back changes nothing
      for sv in (ram, sql):
        svc.call(sv.CreateStudy, vs.CreateStudyRequest(parent='owners/q', study=study_pb2.Study(
            display_name='later', study_spec=svc.spec())))
      ok = svc.abstract(ram) == a1 and svc.abstract(sql) == a2
    tag = 'update_metadata:%s' % c1
  reach(tag)
  return finish(ok, args, obs=[tag, c2])


def many_trials(n: int, which: int) -> bool:
  """
  pre: 8 <= n <= 13 and 0 <= which <= 1
  post: _
  """
  n, which = conc(n, 8, 13), conc(which, 0, 1)
  with NoTracing():
    ram = svc.new_servicer()
    sql = svc.new_servicer(database_url='sqlite:///:memory:')
    outs = []
    for sv in (ram, sql):
      svc.add_study(sv, state=1)
      for i in range(1, n + 1):
        sv.datastore.create_trial(svc.make_trial(i, REQUESTED if i % 2 else ACTIVE, client='' if i % 2 else 'v', x=i / 64.0))
      if which == 0:
        r, e = svc.call(sv.ListTrials, vs.ListTrialsRequest(parent=S))
        outs.append((svc.classify(e), [int(t.id) for t in r.trials]))           # listing order is observable
      else:
        r, e = svc.call(sv.SuggestTrials, vs.SuggestTrialsRequest(parent=S, suggestion_count=2, client_id='w'))
        outs.append((svc.classify(e), _obs(r), svc.abstract(sv)))
    ok = outs[0] == outs[1]
  reach('many_trials')
  return finish(ok, (n, which), obs=None if ok else [str(outs[0])[:300], str(outs[1])[:300]])


def many_operations(n: int, complete: bool) -> bool:
  """
  pre: 8 <= n <= 13
  post: _
  """
  n, complete = conc(n, 8, 13), cbool(complete)
  with NoTracing():
    ram = svc.new_servicer()
    sql = svc.new_servicer(database_url='sqlite:///:memory:')
    outs = []
    for sv in (ram, sql):
      svc.add_study(sv, state=1)
      seq = []
      for k in range(n):     # one worker asks again and again (its operations are numbered 1, 2, ..., 10, 11, ...)
        r, e = svc.call(sv.SuggestTrials, vs.SuggestTrialsRequest(parent=S, suggestion_count=1, client_id='w'))
        seq.append((svc.classify(e), _obs(r)))
        if complete and r is not None and r.HasField('response'):
          for t in vs.SuggestTrialsResponse.FromString(r.response.value).trials:
            req = vs.CompleteTrialRequest(name=t.name)
            req.final_measurement.metrics.add(metric_id='m', value=float(k))
            seq.append(svc.classify(svc.call(sv.CompleteTrial, req)[1]))
      ops = sorted((o.name, o.done) for o in sv.datastore.list_suggestion_operations(S, 'w'))
      outs.append((seq, ops, svc.abstract(sv)))
    ok = outs[0] == outs[1] and all(c == svc.OK for c, _ in [x for x in outs[0][0] if isinstance(x, tuple)])
  reach('many_operations')
  return finish(ok, (n, complete), obs=None if ok else [str(outs[0][0][-2:])[:300], str(outs[1][0][-2:])[:300]])


def delete_and_recreate(t1: int, n_ops: int, who: bool) -> bool:
  """
  pre: 0 <= t1 <= 5 and 0 <= n_ops <= 2
  post: _
  """
  t1, n_ops, who = conc(t1, 0, 5), conc(n_ops, 0, 2), cbool(who)
  with NoTracing():
    ram, sql = _pair(1, t1, 0, 1)
    outs = []
    for sv in (ram, sql):
      seq = []
      for _ in range(n_ops):    # worker 'w' has finished suggestion operations in the old study
        seq.append(_obs(svc.call(sv.SuggestTrials, vs.SuggestTrialsRequest(parent=S, suggestion_count=1, client_id='w'))[0]))
      seq.append(svc.classify(svc.call(sv.DeleteStudy, vs.DeleteStudyRequest(name=S))[1]))
      st, e = svc.call(sv.CreateStudy, vs.CreateStudyRequest(parent=svc.OWNER, study=study_pb2.Study(
          display_name='s', study_spec=svc.spec())))
      seq.append((svc.classify(e), st.name if st is not None else None))
      seq.append(_obs(svc.call(sv.ListTrials, vs.ListTrialsRequest(parent=S))[0]))
      seq.append(_obs(svc.call(sv.SuggestTrials, vs.SuggestTrialsRequest(parent=S, suggestion_count=1,
                                                                         client_id='w' if who else 'v'))[0]))
      outs.append((seq, svc.abstract(sv)))
    ok = outs[0] == outs[1]
    # a re-created study starts empty, and its first operation is number 1
    ok = ok and outs[0][0][-2] == [] and outs[1][0][-2] == []
  reach('recreate')
  return finish(ok, (t1, n_ops, who), obs=None if ok else [outs[0][0][-1], outs[1][0][-1]])


# ---- short histories on both back ends (state that only builds up along a sequence, e.g. id allocation after deletes) -----
H_MENU = ['CreateTrial', 'Suggest_w1', 'Suggest_v2', 'CompleteNewest', 'DeleteNewest', 'DeleteOldest', 'AddMeasurement1',
          'StopNewest', 'SetInactive', 'SetActive', 'DeleteStudy', 'CreateStudy', 'UpdateMetadataStudy', 'ListTrials']


def _h_request(sv, name):
  st = svc.abstract(sv)
  ids = sorted(st['trials']) if st else []
  newest, oldest = (ids[-1] if ids else 1), (ids[0] if ids else 1)
  if name == 'CreateTrial':
    t = study_pb2.Trial()
    t.parameters.add(parameter_id='x').value.number_value = 0.75
    return 'CreateTrial', vs.CreateTrialRequest(parent=S, trial=t)
  if name == 'Suggest_w1':
    return 'SuggestTrials', vs.SuggestTrialsRequest(parent=S, suggestion_count=1, client_id='w')
  if name == 'Suggest_v2':
    return 'SuggestTrials', vs.SuggestTrialsRequest(parent=S, suggestion_count=2, client_id='v')
  if name == 'CompleteNewest':
    r = vs.CompleteTrialRequest(name=svc.trial_name(newest))
    r.final_measurement.metrics.add(metric_id='m', value=7.0)
    return 'CompleteTrial', r
  if name == 'DeleteNewest':
    return 'DeleteTrial', vs.DeleteTrialRequest(name=svc.trial_name(newest))
  if name == 'DeleteOldest':
    return 'DeleteTrial', vs.DeleteTrialRequest(name=svc.trial_name(oldest))
  if name == 'AddMeasurement1':
    r = vs.AddTrialMeasurementRequest(trial_name=svc.trial_name(1))
    r.measurement.metrics.add(metric_id='m', value=9.0)
    return 'AddTrialMeasurement', r
  if name == 'StopNewest':
    return 'StopTrial', vs.StopTrialRequest(name=svc.trial_name(newest))
  if name == 'SetInactive':
    return 'SetStudyState', vs.SetStudyStateRequest(parent=S, state=2)
  if name == 'SetActive':
    return 'SetStudyState', vs.SetStudyStateRequest(parent=S, state=1)
  if name == 'DeleteStudy':
    return 'DeleteStudy', vs.DeleteStudyRequest(name=S)
  if name == 'CreateStudy':
    return 'CreateStudy', vs.CreateStudyRequest(parent=svc.OWNER, study=study_pb2.Study(display_name='s', study_spec=svc.spec()))
  if name == 'UpdateMetadataStudy':
    r = vs.UpdateMetadataRequest(name=S)
    d = r.delta.add()
    d.metadatum.key, d.metadatum.value = 'k', 'v'
    return 'UpdateMetadata', r
  if name == 'ListTrials':
    return 'ListTrials', vs.ListTrialsRequest(parent=S)
  raise AssertionError(name)


def _history(ops, args):
  with NoTracing():
    ram = svc.new_servicer()
    sql = svc.new_servicer(database_url='sqlite:///:memory:')
    for sv in (ram, sql):
      svc.add_study(sv, state=1)
      sv.datastore.create_trial(svc.make_trial(1, ACTIVE, client='w'))
      sv.datastore.create_trial(svc.make_trial(2, REQUESTED))
    ok, where = svc.abstract(ram) == svc.abstract(sql), None
    for k, o in enumerate(ops):
      outs = []
      for sv in (ram, sql):
        method, req = _h_request(sv, H_MENU[o])
        r, e = svc.call(getattr(sv, method), req)
        outs.append((svc.classify(e), _obs(r), svc.abstract(sv)))
      if ok and outs[0] != outs[1]:
        ok, where = False, [k, H_MENU[o], outs[0][:2], outs[1][:2]]
    # a later call that makes the SQL layer roll back changes nothing
    if ok:
      snap = svc.abstract(sql)
      svc.call(sql.CreateStudy, vs.CreateStudyRequest(parent='owners/q', study=study_pb2.Study(
          display_name='later', study_spec=svc.spec())))
      svc.call(sql.CreateStudy, vs.CreateStudyRequest(parent='owners/q', study=study_pb2.Study(
          display_name='later', study_spec=svc.spec())))
      if svc.abstract(sql) != snap:
        ok, where = False, ['uncommitted work lost after a rollback']
  reach('history')
  return finish(ok, args, obs=[[H_MENU[o] for o in ops], where])


def eq_history3(o1: int, o2: int, o3: int) -> bool:
  """
  pre: 0 <= o1 <= 13 and 0 <= o2 <= 13 and 0 <= o3 <= 13
  post: _
  """
  o1, o2, o3 = conc(o1, 0, 13), conc(o2, 0, 13), conc(o3, 0, 13)
  return _history([o1, o2, o3], (o1, o2, o3))


def eq_history4(o1: int, o2: int, o3: int, o4: int) -> bool:
  """
  pre: 0 <= o1 <= 13 and 0 <= o2 <= 13 and 0 <= o3 <= 13 and 0 <= o4 <= 13
  post: _
  """
  import os
  o1 = conc(o1, 0, 13)
  sl = os.environ.get('VERIF_SLICE')
  if sl is not None and o1 != int(sl):
    return True
  o2, o3, o4 = conc(o2, 0, 13), conc(o3, 0, 13), conc(o4, 0, 13)
  return _history([o1, o2, o3, o4], (o1, o2, o3, o4))
