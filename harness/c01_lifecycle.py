"""C01: one RPC from an arbitrary valid stored state vs. the sequential reference model (inductive step).

Encoded (real code): VizierServicer.{CreateTrial, GetTrial, ListTrials, AddTrialMeasurement, CompleteTrial, StopTrial,
DeleteTrial, SetStudyState, DeleteStudy, GetStudy, ListStudies, CreateStudy}, grpc_util.handle_exception,
NestedDictRAMDataStore.*, resources.*.

Pre-state (symbolic, assumed to satisfy the representation invariant): study missing or in any of the 4 states; trial 1
absent or in any of the 5 states with 0..1 intermediate measurements; bystander trial 2 absent / ACTIVE (other worker) /
SUCCEEDED.  One RPC with symbolic arguments.  Post: outcome class and response = reference model; stored state = model
state; on error nothing changed (byte-exact snapshot); lifecycle invariants; bystander untouched.
"""
from engine.hsupport import NoTracing, cbool, conc, finish, reach
from harness import svc
from harness.svc import (ABSENT, ACTIVE, FAILED_PRECONDITION, INFEASIBLE, NOT_FOUND, OK, OTHER_ERROR, REQUESTED, S,
                         STOPPING, SUCCEEDED)
from vizier._src.service import study_pb2
from vizier._src.service import vizier_service_pb2 as vs

ASSUMPTIONS = [
    'pre-state invariant: SUCCEEDED trials carry a final measurement; ACTIVE/STOPPING trials belong to a worker; '
    'REQUESTED trials have no worker; ids unique and positive',
    'protobuf enum/int fields are concretised by Python-level branching before reaching the upb runtime (closed domains)',
    'CreateTrial with an INFEASIBLE or STOPPING input trial is a don\'t-care (not documented)',
]


def _pre(study_state, t1, m1, t2):
  """Builds servicer + model from the concretised pre-state. study_state -1 = study missing."""
  with NoTracing():
    sv = svc.new_servicer()
    if study_state >= 0:
      svc.add_study(sv, state=study_state)
      if t1 != ABSENT:
        sv.datastore.create_trial(svc.make_trial(
            1, t1, client='w' if t1 in (ACTIVE, STOPPING) else '', n_meas=m1,
            final=1.5 if t1 == SUCCEEDED else None, reason='why' if t1 == INFEASIBLE else ''))
      if t2 == 1:
        sv.datastore.create_trial(svc.make_trial(2, ACTIVE, client='v', n_meas=1))
      elif t2 == 2:
        sv.datastore.create_trial(svc.make_trial(2, SUCCEEDED, client='v', n_meas=1, final=2.5))
    before = svc.abstract(sv)
    snap = svc.snapshot(sv)
    model = svc.RefModel(before)
  return sv, before, snap, model


def _judge(sv, before, snap, model, want, want_resp, resp, exc, args, tag, resp_abs=None):
  """Common postcondition."""
  got = svc.classify(exc)
  after = svc.abstract(sv)
  ok = True
  if want is None:                      # documentation silent: error => unchanged, success => model-free invariants
    if exc is not None:
      ok = ok and svc.snapshot(sv) == snap
  else:
    ok = ok and got == want
    if want == OK:
      ok = ok and after == model.study
      if want_resp is not None and resp_abs is not None:
        ok = ok and resp_abs == want_resp
    else:
      ok = ok and svc.snapshot(sv) == snap       # failed call leaves ALL stored data unchanged
  ok = ok and svc.lifecycle_ok(before, after)
  reach('%s:%s' % (tag, got))
  return finish(ok, args, obs=[tag, got, want])


def _state_args(study_state, t1, m1, t2):
  return conc(study_state, -1, 3), conc(t1, 0, 5), conc(m1, 0, 1), conc(t2, 0, 2)


def complete_trial(study_state: int, t1: int, m1: int, t2: int, target: int, infeasible: bool, with_final: int) -> bool:
  """
  pre: -1 <= study_state <= 3 and 0 <= t1 <= 5 and 0 <= m1 <= 1 and 0 <= t2 <= 2 and 1 <= target <= 3 and 0 <= with_final <= 2
  post: _
  """
  study_state, t1, m1, t2 = _state_args(study_state, t1, m1, t2)
  target, infeasible, with_final = conc(target, 1, 3), cbool(infeasible), conc(with_final, 0, 2)
  sv, before, snap, model = _pre(study_state, t1, m1, t2)
  req = vs.CompleteTrialRequest(name=svc.trial_name(target), trial_infeasible=infeasible)
  if infeasible:
    req.infeasible_reason = 'bad'
  if with_final == 1:
    req.final_measurement.metrics.add(metric_id='m', value=7.0)
  elif with_final == 2:
    req.final_measurement.step_count = 3     # a final measurement that is present but reports no metric = none given
  resp, exc = svc.call(sv.CompleteTrial, req)
  want, want_resp = model.complete(target, 7.0 if with_final == 1 else None, infeasible, 'bad')
  return _judge(sv, before, snap, model, want, want_resp, resp, exc,
                (study_state, t1, m1, t2, target, infeasible, with_final), 'complete',
                svc.abstract_trial(resp) if resp is not None else None)


def add_measurement(study_state: int, t1: int, m1: int, t2: int, target: int) -> bool:
  """
  pre: -1 <= study_state <= 3 and 0 <= t1 <= 5 and 0 <= m1 <= 1 and 0 <= t2 <= 2 and 1 <= target <= 3
  post: _
  """
  study_state, t1, m1, t2 = _state_args(study_state, t1, m1, t2)
  target = conc(target, 1, 3)
  sv, before, snap, model = _pre(study_state, t1, m1, t2)
  req = vs.AddTrialMeasurementRequest(trial_name=svc.trial_name(target))
  req.measurement.metrics.add(metric_id='m', value=9.0)
  resp, exc = svc.call(sv.AddTrialMeasurement, req)
  want, want_resp = model.add_measurement(target, 9.0)
  return _judge(sv, before, snap, model, want, want_resp, resp, exc, (study_state, t1, m1, t2, target), 'measure',
                svc.abstract_trial(resp) if resp is not None else None)


def stop_trial(study_state: int, t1: int, m1: int, t2: int, target: int) -> bool:
  """
  pre: -1 <= study_state <= 3 and 0 <= t1 <= 5 and 0 <= m1 <= 1 and 0 <= t2 <= 2 and 1 <= target <= 3
  post: _
  """
  study_state, t1, m1, t2 = _state_args(study_state, t1, m1, t2)
  target = conc(target, 1, 3)
  sv, before, snap, model = _pre(study_state, t1, m1, t2)
  resp, exc = svc.call(sv.StopTrial, vs.StopTrialRequest(name=svc.trial_name(target)))
  want, want_resp = model.stop(target)
  return _judge(sv, before, snap, model, want, want_resp, resp, exc, (study_state, t1, m1, t2, target), 'stop',
                svc.abstract_trial(resp) if resp is not None else None)


def delete_trial(study_state: int, t1: int, m1: int, t2: int, target: int) -> bool:
  """
  pre: -1 <= study_state <= 3 and 0 <= t1 <= 5 and 0 <= m1 <= 1 and 0 <= t2 <= 2 and 1 <= target <= 3
  post: _
  """
  study_state, t1, m1, t2 = _state_args(study_state, t1, m1, t2)
  target = conc(target, 1, 3)
  sv, before, snap, model = _pre(study_state, t1, m1, t2)
  resp, exc = svc.call(sv.DeleteTrial, vs.DeleteTrialRequest(name=svc.trial_name(target)))
  want, _ = model.delete_trial(target)
  return _judge(sv, before, snap, model, want, None, resp, exc, (study_state, t1, m1, t2, target), 'delete_trial')


def create_trial(study_state: int, t1: int, m1: int, t2: int, given: int, with_final: bool) -> bool:
  """
  pre: -1 <= study_state <= 3 and 0 <= t1 <= 5 and 0 <= m1 <= 1 and 0 <= t2 <= 2 and 0 <= given <= 4
  post: _
  """
  study_state, t1, m1, t2 = _state_args(study_state, t1, m1, t2)
  given, with_final = conc(given, 0, 4), cbool(with_final)
  if given == STOPPING:
    return True
  if given == SUCCEEDED and not with_final:
    return True     # a SUCCEEDED trial without final measurement is not a valid input
  if given != SUCCEEDED and with_final:
    return True
  sv, before, snap, model = _pre(study_state, t1, m1, t2)
  t = study_pb2.Trial(state=given, client_id='intruder')
  t.parameters.add(parameter_id='x').value.number_value = 0.75
  if with_final:
    t.final_measurement.metrics.add(metric_id='m', value=3.0)
  resp, exc = svc.call(sv.CreateTrial, vs.CreateTrialRequest(parent=S, trial=t))
  want, want_resp = model.create_trial(given, 3.0 if with_final else None, x=0.75)
  ok_extra = True
  if exc is None and before is not None:
    # fresh id: larger than every id already in the study
    ok_extra = int(resp.id) > max(list(before['trials']) or [0]) and resp.name == svc.trial_name(int(resp.id))
  r = _judge(sv, before, snap, model, want, want_resp, resp, exc, (study_state, t1, m1, t2, given, with_final),
             'create_trial', svc.abstract_trial(resp) if resp is not None else None)
  return r and ok_extra


def read_calls(study_state: int, t1: int, m1: int, t2: int, target: int, which: int) -> bool:
  """
  pre: -1 <= study_state <= 3 and 0 <= t1 <= 5 and 0 <= m1 <= 1 and 0 <= t2 <= 2 and 1 <= target <= 3 and 0 <= which <= 2
  post: _
  """
  study_state, t1, m1, t2 = _state_args(study_state, t1, m1, t2)
  target, which = conc(target, 1, 3), conc(which, 0, 2)
  sv, before, snap, model = _pre(study_state, t1, m1, t2)
  if which == 0:
    resp, exc = svc.call(sv.GetTrial, vs.GetTrialRequest(name=svc.trial_name(target)))
    want, want_resp = model.get_trial(target)
    resp_abs = svc.abstract_trial(resp) if resp is not None else None
  elif which == 1:
    resp, exc = svc.call(sv.ListTrials, vs.ListTrialsRequest(parent=S))
    want, want_resp = model.list_trials()
    resp_abs = sorted([svc.abstract_trial(t) for t in resp.trials], key=lambda d: d['id']) if resp is not None else None
  else:
    resp, exc = svc.call(sv.GetStudy, vs.GetStudyRequest(name=S))
    want, want_resp = (OK, before['state']) if before is not None else (NOT_FOUND, None)
    resp_abs = resp.state if resp is not None else None
  ok_unchanged = svc.snapshot(sv) == snap            # reads never change anything
  r = _judge(sv, before, snap, model, want, want_resp, resp, exc, (study_state, t1, m1, t2, target, which), 'read%d' % which,
             resp_abs)
  return r and ok_unchanged


def study_calls(study_state: int, t1: int, m1: int, t2: int, which: int, new_state: int) -> bool:
  """
  pre: -1 <= study_state <= 3 and 0 <= t1 <= 5 and 0 <= m1 <= 1 and 0 <= t2 <= 2 and 0 <= which <= 1 and 0 <= new_state <= 3
  post: _
  """
  study_state, t1, m1, t2 = _state_args(study_state, t1, m1, t2)
  which, new_state = conc(which, 0, 1), conc(new_state, 0, 3)
  sv, before, snap, model = _pre(study_state, t1, m1, t2)
  if which == 0:
    resp, exc = svc.call(sv.SetStudyState, vs.SetStudyStateRequest(parent=S, state=new_state))
    want, want_resp = model.set_study_state(new_state)
    resp_abs = resp.state if resp is not None else None
  else:
    if new_state != 0:
      return True
    resp, exc = svc.call(sv.DeleteStudy, vs.DeleteStudyRequest(name=S))
    want, want_resp = model.delete_study()
    resp_abs = None
  return _judge(sv, before, snap, model, want, want_resp, resp, exc, (study_state, t1, m1, t2, which, new_state),
                'study%d' % which, resp_abs)
