"""C15 (partial): numeric encoding of trials is invertible and always decodes into the space.

Two kinds of obligation:
* symbolic-value kernels (real arithmetic): the linear scaler lambdas and the decoder `_to_parameter_value` of the REAL
  DefaultModelInputConverter are executed on a SYMBOLIC real (or nan / +-inf) value; parameter bounds are chosen by branching
  from a representative set because NumpyArraySpec stores its bounds through numpy (a symbolic bound would be realised);
  `core.np` is rebound to engine/npshim so that np.isfinite / np.clip / np.abs / np.asarray / np.argmin keep their
  documented meaning on symbolic scalars.
* exact round trips through the full numpy pipeline (convert -> one-hot -> to_parameter_values, TrialToArrayConverter,
  ContinuousCategoricalFeatureMapper): the configuration (parameter kind, domain, converter options) and the feasible point
  are chosen by solver branching and the real numpy/JAX code runs on them outside tracing.

Encoded (real code): converters.core.ModelInputArrayBijector.scaler_from_spec / onehot_embedder_from_spec,
DefaultModelInputConverter.convert/_to_parameter_value/to_parameter_values/_convert_index, DefaultModelOutputConverter,
TrialToArrayConverter, feature_mapper.ContinuousCategoricalFeatureMapper.
"""
import math

import numpy as np
from engine import npshim
from engine.hsupport import NoTracing, cbool, conc, finish, reach
from vizier import pyvizier as vz
from vizier.pyvizier.converters import core

npshim.install(core)
ASSUMPTIONS = [
    'core.np rebound to engine/npshim (scalar predicates on symbolic values); float values are reals: no rounding claim',
    'bounds from the representative set %s' % '[(0,1),(2,3),(-0.5,0.5),(-3,7),(5,5),(0.001,1000),(-1e6,-1e3)]',
    'LOG / REVERSE_LOG scaling is outside the symbolic kernels (transcendental functions): covered only on the feasible '
    'points of the native round-trip obligations',
]
BOUNDS = [(0.0, 1.0), (2.0, 3.0), (-0.5, 0.5), (-3.0, 7.0), (5.0, 5.0), (0.001, 1000.0), (-1e6, -1e3)]
_CONV = {}


def _double_converter(b, scale, clip):
  key = ('d', b, scale, clip)
  with NoTracing():
    if key not in _CONV:
      lo, hi = BOUNDS[b]
      pc = vz.ParameterConfig.factory('x', bounds=(lo, hi), scale_type=vz.ScaleType.LINEAR)
      _CONV[key] = core.DefaultModelInputConverter(pc, scale=scale, float_dtype=np.float64, should_clip=clip)
    return _CONV[key]


def _finite(x):
  return x == x and x != float('inf') and x != float('-inf')


def linear_scaling(b: int, x: float, x2: float) -> bool:
  """
  pre: 0 <= b <= 6
  post: _
  """
  b = conc(b, 0, 6)
  lo, hi = BOUNDS[b]
  if not (_finite(x) and _finite(x2) and lo <= x <= hi and lo <= x2 <= hi):
    return True
  conv = _double_converter(b, True, True)
  f, g = conv.scaler.forward_fn, conv.scaler.backward_fn
  y, y2 = f(x), f(x2)
  ok = 0.0 <= y <= 1.0 and g(y) == x                       # unit interval, exact inverse over the reals
  if lo < hi:
    ok = ok and f(lo) == 0.0 and f(hi) == 1.0               # documented orientation
    if x < x2:
      ok = ok and y < y2                                    # strictly monotone
  else:
    ok = ok and y == 0.5
  reach('linear_%d' % b)
  return finish(ok, (b, x, x2))


def decode_double(b: int, scale: bool, clip: bool, y: float) -> bool:
  """
  pre: 0 <= b <= 6
  post: _
  """
  b, scale, clip = conc(b, 0, 6), cbool(scale), cbool(clip)
  lo, hi = BOUNDS[b]
  conv = _double_converter(b, scale, clip)
  raw = conv.scaler.backward_fn(y) if _finite(y) else y
  pv = conv._to_parameter_value(raw)
  reach('decode_double_%s' % ('none' if pv is None else 'value'))
  if not _finite(y):
    return finish(pv is None, (b, scale, clip, y))
  ok = pv is not None and isinstance(pv.value, float)
  if clip:
    ok = ok and lo <= pv.value <= hi                        # whatever an optimiser produces decodes into the space
  else:
    inside = (0.0 <= y <= 1.0) if (scale and lo < hi and not (lo == 0.0 and hi == 1.0)) else None
    if inside is True:
      ok = ok and lo <= pv.value <= hi
  return finish(ok, (b, scale, clip, y))


_DISCRETE_SETS = [[1.0], [0.0, 1.0], [-2.5, 0.5, 3.0], [1.0, 2.0, 4.0, 8.0], [-1.0, 0.0, 0.25, 10.0, 1000.0]]


def decode_continuified(kind: int, s: int, y: float) -> bool:
  """
  pre: 0 <= kind <= 1 and 0 <= s <= 4
  post: _
  """
  kind, s = conc(kind, 0, 1), conc(s, 0, 4)
  with NoTracing():
    key = ('c', kind, s)
    if key not in _CONV:
      if kind == 0:
        pc = vz.ParameterConfig.factory('x', feasible_values=_DISCRETE_SETS[s])
      else:
        pc = vz.ParameterConfig.factory('x', bounds=(-2, -2 + s))
      _CONV[key] = core.DefaultModelInputConverter(pc, scale=False, max_discrete_indices=0, float_dtype=np.float64)
    conv = _CONV[key]
    feas = list(conv.parameter_config.feasible_values)
  pv = conv._to_parameter_value(y)
  reach('continuified_%d' % kind)
  if not _finite(y):
    return finish(pv is None, (kind, s, y))
  ok = pv is not None and pv.value in feas                  # snaps to a member of the domain
  if ok:
    for v in feas:                                          # ... the nearest one
      ok = ok and abs(pv.value - y) <= abs(v - y)
    if kind == 1:
      ok = ok and isinstance(pv.value, int)
  return finish(ok, (kind, s, y))


def decode_index(kind: int, s: int, idx: int) -> bool:
  """
  pre: 0 <= kind <= 2 and 0 <= s <= 4 and 0 <= idx
  post: _
  """
  kind, s = conc(kind, 0, 2), conc(s, 0, 4)
  with NoTracing():
    key = ('i', kind, s)
    if key not in _CONV:
      if kind == 0:
        pc = vz.ParameterConfig.factory('x', feasible_values=_DISCRETE_SETS[s])
      elif kind == 1:
        pc = vz.ParameterConfig.factory('x', bounds=(-2, -2 + s))
      else:
        pc = vz.ParameterConfig.factory('x', feasible_values=['a', 'b', 'c', 'd', 'e'][:s + 1])
      _CONV[key] = core.DefaultModelInputConverter(pc, scale=False, max_discrete_indices=100, float_dtype=np.float64)
    conv = _CONV[key]
    feas = list(conv.parameter_config.feasible_values)
  pv = conv._to_parameter_value(idx)
  reach('index_%d' % kind)
  if idx >= len(feas):
    return finish(pv is None, (kind, s, idx))               # out-of-vocabulary index decodes to "no value"
  return finish(pv is not None and pv.value == feas[idx], (kind, s, idx))


# ---- exact round trips through the real numpy pipeline (configuration chosen by the solver, run natively) -------
def _param(kind, s, scale_type):
  if kind == 0:
    return vz.ParameterConfig.factory('p', feasible_values=_DISCRETE_SETS[s])
  if kind == 1:
    return vz.ParameterConfig.factory('p', bounds=(-2, -2 + s))
  if kind == 2:
    return vz.ParameterConfig.factory('p', feasible_values=['a', 'b', 'c', 'd', 'e'][:s + 1])
  lo, hi = [(0.0, 1.0), (2.0, 3.0), (-0.5, 0.5), (0.001, 1000.0), (5.0, 5.0)][s]
  st = [vz.ScaleType.LINEAR, vz.ScaleType.LOG, vz.ScaleType.REVERSE_LOG][scale_type]
  if scale_type and lo <= 0:
    return None
  return vz.ParameterConfig.factory('p', bounds=(lo, hi), scale_type=st)


def roundtrip_single(kind: int, s: int, point: int, scale: bool, onehot: bool, pad: bool, mdi: int, scale_type: int) -> bool:
  """
  pre: 0 <= kind <= 3 and 0 <= s <= 4 and 0 <= point <= 4 and 0 <= mdi <= 2 and 0 <= scale_type <= 2
  post: _
  """
  kind, s, point, mdi, scale_type = conc(kind, 0, 3), conc(s, 0, 4), conc(point, 0, 4), conc(mdi, 0, 2), conc(scale_type, 0, 2)
  scale, onehot, pad = cbool(scale), cbool(onehot), cbool(pad)
  if kind != 3 and scale_type:
    return True
  args = (kind, s, point, scale, onehot, pad, mdi, scale_type)
  with NoTracing():
    pc = _param(kind, s, scale_type)
    if pc is None:
      return True
    if kind == 3:
      lo, hi = pc.bounds
      value = [lo, hi, (lo + hi) / 2, lo + (hi - lo) * 0.125, lo + (hi - lo) * 0.9][point]
    else:
      feas = pc.feasible_values
      if point >= len(feas):
        return True
      value = feas[point]
    conv = core.DefaultModelInputConverter(pc, scale=scale, onehot_embed=onehot, pad_oovs=pad,
                                           max_discrete_indices=[0, 10, 10 ** 9][mdi], float_dtype=np.float64)
    arr = conv.convert([vz.TrialSuggestion({'p': value})])
    ok = arr.shape == (1, conv.output_spec.num_dimensions) and bool(np.all(np.isfinite(arr)))
    spec = conv.output_spec
    if spec.type == core.NumpyArraySpecType.ONEHOT_EMBEDDING:
      ok = ok and float(arr.sum()) == 1.0 and set(np.unique(arr)) <= {0.0, 1.0}     # exactly one active entry
    if spec.type == core.NumpyArraySpecType.CONTINUOUS and scale:
      ok = ok and bool(np.all(arr >= -1e-9) and np.all(arr <= 1 + 1e-9))            # unit interval (to float accuracy)
      if kind == 3 and pc.bounds[0] < pc.bounds[1] and point < 2:
        want = float(point) if scale_type != 2 else float(point)
        ok = ok and abs(float(arr[0, 0]) - want) < 1e-9                             # low -> 0, high -> 1 (orientation)
    back = conv.to_parameter_values(arr)
    ok = ok and len(back) == 1 and back[0] is not None
    if ok:
      if kind == 3:
        ok = math.isclose(back[0].value, value, rel_tol=1e-9, abs_tol=1e-12)
      else:
        ok = back[0].value == value and type(back[0].value) is type(value)           # exact for int/discrete/categorical
  reach('roundtrip_kind%d' % kind)
  return finish(ok, args)


def roundtrip_space(layout: int, pad: bool, mdi: int, p1: int, p2: int, p3: int, use_mapper: bool) -> bool:
  """
  pre: 0 <= layout <= 5 and 0 <= mdi <= 1 and 0 <= p1 <= 2 and 0 <= p2 <= 2 and 0 <= p3 <= 2
  post: _
  """
  layout, mdi, p1, p2, p3 = conc(layout, 0, 5), conc(mdi, 0, 1), conc(p1, 0, 2), conc(p2, 0, 2), conc(p3, 0, 2)
  pad, use_mapper = cbool(pad), cbool(use_mapper)
  args = (layout, pad, mdi, p1, p2, p3, use_mapper)
  with NoTracing():
    # parameter NAMES decide the column order: all interleavings of (categorical, continuous, categorical/discrete)
    names = [('a', 'b', 'c'), ('a', 'c', 'b'), ('b', 'a', 'c'), ('b', 'c', 'a'), ('c', 'a', 'b'), ('c', 'b', 'a')][layout]
    problem = vz.ProblemStatement()
    root = problem.search_space.root
    root.add_categorical_param(names[0], ['x', 'y', 'z'])
    root.add_float_param(names[1], -1.0, 3.0)
    root.add_discrete_param(names[2], [1.0, 2.0, 4.0])
    problem.metric_information.append(vz.MetricInformation('m', goal=vz.ObjectiveMetricGoal.MINIMIZE))
    conv = core.TrialToArrayConverter.from_study_config(problem, pad_oovs=pad, max_discrete_indices=[0, 10][mdi])
    params = {names[0]: ['x', 'y', 'z'][p1], names[1]: [-1.0, 0.5, 3.0][p2], names[2]: [1.0, 2.0, 4.0][p3]}
    t = vz.Trial(parameters=params)
    t.complete(vz.Measurement({'m': 2.5}))
    feats = conv.to_features([t])
    if use_mapper and mdi == 1:
      from vizier.pyvizier.converters import feature_mapper
      mapper = feature_mapper.ContinuousCategoricalFeatureMapper(conv)
      mapped = mapper.map(feats)
      ok = mapped.continuous.shape[-1] + mapped.categorical.shape[-1] == 3
      feats2 = np.asarray(mapper.unmap(mapped))
      ok = ok and feats2.shape == feats.shape and bool(np.allclose(feats2, feats))
      feats = feats2
    else:
      ok = True
    back = conv.to_parameters(feats)
    ok = ok and len(back) == 1 and back[0].as_dict() == params
    labels = conv.to_labels([t])
    ok = ok and labels.shape == (1, 1) and float(labels[0, 0]) == -2.5          # MINIMIZE flipped to maximisation form
  reach('roundtrip_space')
  return finish(ok, args)


def labels_roundtrip(goal: int, flip: bool, v: int) -> bool:
  """
  pre: 1 <= goal <= 2 and 0 <= v <= 3
  post: _
  """
  goal, flip, v = conc(goal, 1, 2), cbool(flip), conc(v, 0, 3)
  with NoTracing():
    value = [0.0, -1.5, 3.25, 1e9][v]
    mi = vz.MetricInformation('m', goal=vz.ObjectiveMetricGoal.MAXIMIZE if goal == 1 else vz.ObjectiveMetricGoal.MINIMIZE)
    oc = core.DefaultModelOutputConverter(mi, flip_sign_for_minimization_metrics=flip, dtype=np.float64)
    labels = oc.convert([vz.Measurement({'m': value}), None])
    sign = -1.0 if (goal == 2 and flip) else 1.0
    ok = labels.shape == (2, 1) and float(labels[0, 0]) == sign * value and math.isnan(float(labels[1, 0]))
    keep = labels.copy()
    back = oc.to_metrics(labels)
    ok = ok and back[0] is not None and back[0].value == value and back[1] is None
    # converting back is a pure function of the label array: the caller's array is intact and a second conversion of the
    # same array (as (n, 1) and as (n,)) returns the original values again
    ok = ok and np.array_equal(labels, keep, equal_nan=True)
    for arr in (labels, labels[:, 0], np.ascontiguousarray(labels[:, 0])):
      again = oc.to_metrics(arr)
      ok = ok and again[0] is not None and again[0].value == value and again[1] is None
    ok = ok and np.array_equal(labels, keep, equal_nan=True)
    ok = ok and (oc.metric_information.goal == vz.ObjectiveMetricGoal.MAXIMIZE if (goal == 2 and flip) else
                 oc.metric_information.goal == mi.goal)
  reach('labels')
  return finish(ok, (goal, flip, v))


F32_BOUNDS = [(0.1, 0.6), (0.7, 1.1), (-1.1, -0.3), (0.001, 0.3), (16777217.0, 16777219.0), (0.0, 1.0)]


def float32_double(b: int, scale: bool, clip: bool, f: int) -> bool:
  """
  pre: 0 <= b <= 5 and 0 <= f <= 8
  post: _
  """
  b, scale, clip, f = conc(b, 0, 5), cbool(scale), cbool(clip), conc(f, 0, 8)
  with NoTracing():
    lo, hi = F32_BOUNDS[b]          # bounds a float32 cannot represent: the cast bound lies outside [lo, hi] on one side
    pc = vz.ParameterConfig.factory('p', bounds=(lo, hi), scale_type=vz.ScaleType.LINEAR)
    conv = core.DefaultModelInputConverter(pc, scale=scale, float_dtype=np.float32, should_clip=clip)
    ok = True
    if f < 5:
      # a point of the space, encoded and decoded: inside the space again, equal to float32 accuracy
      value = [lo, hi, (lo + hi) / 2, lo + (hi - lo) * 0.125, lo + (hi - lo) * 0.9][f]
      arr = conv.convert([vz.TrialSuggestion({'p': value})])
      ok = arr.dtype == np.float32 and bool(np.all(np.isfinite(arr)))
      if scale:
        ok = ok and bool(np.all(arr >= -1e-6) and np.all(arr <= 1 + 1e-6))
    else:
      # whatever an optimiser produces, in feature units: far outside, just outside, huge
      span = 1.0 if scale else (hi - lo)
      base = 0.0 if scale else lo
      arr = np.asarray([[base + span * [-3.0, 1.0 + 1e-7, 4.0, 1e30][f - 5]]], dtype=np.float32)
    back = conv.to_parameter_values(arr)
    ok = ok and len(back) == 1
    if clip:
      # clipping on: the decoded value is a member of the search space, whatever the array holds
      ok = ok and back[0] is not None and isinstance(back[0].value, float) and lo <= back[0].value <= hi
      ok = ok and pc.contains(back[0].value)
    if ok and f < 5:
      ok = back[0] is not None
    if ok and f < 5:
      ok = math.isclose(back[0].value, value, rel_tol=2e-6, abs_tol=2e-6 * max(abs(lo), abs(hi)))
  reach('float32_double')
  return finish(ok, (b, scale, clip, f))


TINY = [(1e-10, 1e-8), (0.0, 1e-8), (1000.0, 1000.005), (1e-12, 2e-12), (-1e-9, 1e-9)]


def tiny_ranges(b: int, point: int) -> bool:
  """
  pre: 0 <= b <= 4 and 0 <= point <= 4
  post: _
  """
  b, point = conc(b, 0, 4), conc(point, 0, 4)
  with NoTracing():
    lo, hi = TINY[b]               # valid ranges that are narrow in absolute terms (an absolute tolerance would call them empty)
    pc = vz.ParameterConfig.factory('p', bounds=(lo, hi), scale_type=vz.ScaleType.LINEAR)
    conv = core.DefaultModelInputConverter(pc, scale=True, float_dtype=np.float64)
    frac = [0.0, 1.0, 0.5, 0.125, 0.875][point]
    value = lo + (hi - lo) * frac
    arr = conv.convert([vz.TrialSuggestion({'p': value})])
    ok = arr.shape == (1, 1) and abs(float(arr[0, 0]) - frac) < 1e-6          # low -> 0, high -> 1, orientation kept
    back = conv.to_parameter_values(arr)
    ok = ok and back[0] is not None and lo <= back[0].value <= hi
    ok = ok and abs(back[0].value - value) <= 1e-6 * (hi - lo)
  reach('tiny_ranges')
  return finish(ok, (b, point))


def jnp_roundtrip(layout: int, mdi: int, p1: int, p2: int, p3: int, p4: int) -> bool:
  """
  pre: 0 <= layout <= 5 and 0 <= mdi <= 2 and 0 <= p1 <= 2 and 0 <= p2 <= 2 and 0 <= p3 <= 2 and 0 <= p4 <= 2
  post: _
  """
  layout, mdi = conc(layout, 0, 5), conc(mdi, 0, 2)
  p1, p2, p3, p4 = conc(p1, 0, 2), conc(p2, 0, 2), conc(p3, 0, 2), conc(p4, 0, 2)
  with NoTracing():
    from vizier.pyvizier.converters import jnp_converters as jc
    # the converter the GP designers use: continuous and categorical blocks; names decide the column order
    names = [('a', 'b', 'c', 'd'), ('a', 'c', 'b', 'd'), ('b', 'a', 'd', 'c'), ('d', 'c', 'a', 'b'), ('c', 'a', 'b', 'd'),
             ('d', 'b', 'c', 'a')][layout]
    problem = vz.ProblemStatement()
    root = problem.search_space.root
    root.add_categorical_param(names[0], ['x', 'y', 'z'])
    root.add_float_param(names[1], -1.0, 3.0)
    root.add_int_param(names[2], -2, 2)
    root.add_discrete_param(names[3], [1.0, 2.0, 4.0])
    problem.metric_information.append(vz.MetricInformation('m', goal=vz.ObjectiveMetricGoal.MAXIMIZE))
    conv = jc.TrialToContinuousAndCategoricalConverter.from_study_config(problem, max_discrete_indices=[0, 10, 10 ** 9][mdi])
    params = {names[0]: ['x', 'y', 'z'][p1], names[1]: [-1.0, 0.5, 3.0][p2], names[2]: [-2, 0, 2][p3],
              names[3]: [1.0, 2.0, 4.0][p4]}
    other = {names[0]: 'z', names[1]: 2.0, names[2]: 1, names[3]: 4.0}
    feats = conv.to_features([vz.Trial(parameters=params), vz.Trial(parameters=other)])
    cont = np.asarray(feats.continuous)
    ok = bool(np.all(np.isfinite(cont))) and bool(np.all(cont >= -1e-6) and np.all(cont <= 1 + 1e-6))   # scaled block
    back = conv.to_parameters(feats)
    ok = ok and len(back) == 2
    for want, got in zip((params, other), back):
      g = got.as_dict()
      ok = ok and sorted(g) == sorted(want)
      if ok:
        for k, v in want.items():
          if isinstance(v, float) and k == names[1]:
            ok = ok and abs(float(g[k]) - v) < 1e-5
          else:
            ok = ok and g[k] == v
  reach('jnp_roundtrip')
  return finish(ok, (layout, mdi, p1, p2, p3, p4))


_ROWS = [[0.0, 0.0, 0.0, 0.0], [0.25, 0.25, 0.25, 0.25], [0.1, 0.2, 0.3, 0.9], [-1.0, -2.0, -3.0, -0.5], [0.0, 0.0, 0.0, 1.0],
         [0.3, 0.1, 0.2, 0.3], [1e30, -1e30, 0.0, 1e30], [0.0, 1.0, 0.0, 0.0]]


def onehot_decode_any(row: int, n: int, dt: bool) -> bool:
  """
  pre: 0 <= row <= 7 and 1 <= n <= 3
  post: _
  """
  row, n, dt = conc(row, 0, 7), conc(n, 1, 3), cbool(dt)
  with NoTracing():
    # whatever an optimiser writes into a one-hot block (padded with the out-of-vocabulary column): a feasible category
    cats = ['a', 'b', 'c'][:n]
    pc = vz.ParameterConfig.factory('p', feasible_values=cats)
    conv = core.DefaultModelInputConverter(pc, scale=True, onehot_embed=True, pad_oovs=True,
                                           float_dtype=np.float32 if dt else np.float64)
    width = conv.output_spec.num_dimensions
    arr = np.asarray([(_ROWS[row][:n] + [_ROWS[row][3]])[:width]], dtype=np.float32 if dt else np.float64)
    ok = width == n + 1
    back = conv.to_parameter_values(arr)
    ok = ok and len(back) == 1 and back[0] is not None and back[0].value in cats
  reach('onehot_any')
  return finish(ok, (row, n, dt))
