"""C01 on the symproto back end: the same one-step obligations with the stored study state, the trial state and the
reported metric values kept SYMBOLIC all the way through the real servicer and RAM datastore (no enumeration: the study
state ranges over all int32 values, metric values over all reals), so z3 decides every state comparison in the real code.

Encoded (real code): VizierServicer.CompleteTrial/AddTrialMeasurement/StopTrial/DeleteTrial, _study_is_immutable,
grpc_util.handle_exception, NestedDictRAMDataStore.get_trial/update_trial/delete_trial/load_study.
"""
from engine.hsupport import cbool, conc, finish, reach
from env import bootstrap
from harness import svc
from harness.svc import ABSENT, ACTIVE, INFEASIBLE, S, STOPPING, SUCCEEDED
from vizier._src.service import vizier_service_pb2 as vs

bootstrap.post_import()
ASSUMPTIONS = [
    'protobuf runtime = env/symproto model; Study.state any int32, Trial.state any of the 5 legal states (symbolic), metric '
    'values any finite real',
]


def _pre(study_state, t1, n_meas, mval):
  sv = svc.new_servicer()
  svc.add_study(sv, state=study_state)
  if not (t1 == ABSENT):
    t = svc.make_trial(1, t1, client='w', n_meas=0)
    for k in range(n_meas):
      m = t.measurements.add()
      m.metrics.add(metric_id='m', value=mval)
    if t1 == SUCCEEDED:
      t.final_measurement.metrics.add(metric_id='m', value=mval)
    sv.datastore.create_trial(t)
  sv.datastore.create_trial(svc.make_trial(2, SUCCEEDED, client='v', final=2.5))
  before = svc.abstract(sv)
  return sv, before, svc.RefModel(before)


def _finish(sv, before, model, want, want_resp, resp, exc, args, tag):
  got = svc.classify(exc)
  after = svc.abstract(sv)
  ok = got == want
  if want == svc.OK:
    ok = ok and after == model.study
    if want_resp is not None:
      ok = ok and svc.abstract_trial(resp) == want_resp
  else:
    ok = ok and after == before                         # a failed call changes nothing
  ok = ok and svc.lifecycle_ok(before, after)
  reach(tag + ':' + got)
  return finish(ok, args)


def complete(study_state: int, t1: int, n_meas: int, mval: float, fval: float, infeasible: bool, with_final: bool) -> bool:
  """
  pre: 0 <= study_state <= 2147483647 and 0 <= t1 <= 5 and 0 <= n_meas <= 1
  post: _
  """
  n_meas, infeasible, with_final = conc(n_meas, 0, 1), cbool(infeasible), cbool(with_final)
  sv, before, model = _pre(study_state, t1, n_meas, mval)
  req = vs.CompleteTrialRequest(name=svc.trial_name(1), trial_infeasible=infeasible)
  if infeasible:
    req.infeasible_reason = 'bad'
  if with_final:
    req.final_measurement.metrics.add(metric_id='m', value=fval)
  resp, exc = svc.call(sv.CompleteTrial, req)
  want, want_resp = model.complete(1, fval if with_final else None, infeasible, 'bad')
  return _finish(sv, before, model, want, want_resp, resp, exc, (study_state, t1, n_meas, mval, fval, infeasible, with_final),
                 'complete')


def measure_stop_delete(op: int, study_state: int, t1: int, mval: float) -> bool:
  """
  pre: 0 <= op <= 2 and 0 <= study_state <= 2147483647 and 0 <= t1 <= 5
  post: _
  """
  op = conc(op, 0, 2)
  sv, before, model = _pre(study_state, t1, 1, 0.5)
  if op == 0:
    req = vs.AddTrialMeasurementRequest(trial_name=svc.trial_name(1))
    req.measurement.metrics.add(metric_id='m', value=mval)
    resp, exc = svc.call(sv.AddTrialMeasurement, req)
    want, want_resp = model.add_measurement(1, mval)
    if want is None:
      return True
  elif op == 1:
    resp, exc = svc.call(sv.StopTrial, vs.StopTrialRequest(name=svc.trial_name(1)))
    want, want_resp = model.stop(1)
  else:
    resp, exc = svc.call(sv.DeleteTrial, vs.DeleteTrialRequest(name=svc.trial_name(1)))
    want, want_resp = model.delete_trial(1)
    resp = None if want_resp is None else resp
  return _finish(sv, before, model, want, want_resp, resp, exc, (op, study_state, t1, mval), 'op%d' % op)
