"""C02 (client side): VizierClient.get_suggestions polls the long-running operation until it is done, maps a finished study
(FAILED_PRECONDITION) to an empty list, reports operation errors, and returns exactly the trials of the finished operation.

Encoded (real code): vizier_client.VizierClient.get_suggestions, PollingDelay, TrialConverter.from_protos.
The service is a scripted stub: the solver chooses how many polls return "not done", whether the call fails and how.
"""
import grpc
from engine.hsupport import NoTracing, conc, finish, reach
from harness import svc
from vizier._src.service import grpc_util
from vizier._src.service import vizier_client
from vizier._src.service import vizier_service_pb2 as vs
from google.longrunning import operations_pb2

ASSUMPTIONS = ['scripted service stub (operation sequence chosen by the solver); time.sleep stubbed out']
vizier_client.time = type('T', (), {'sleep': staticmethod(lambda s: None)})      # no real waiting in the polling loop


class _Service:

  def __init__(self, first_done, polls_until_done, fail, n_trials, op_error):
    self.first_done, self.left, self.fail, self.n, self.op_error = first_done, polls_until_done, fail, n_trials, op_error
    self.polls = 0

  def _op(self, done):
    op = operations_pb2.Operation(name='owners/o/operations/suggestion/s/c/1', done=done)
    if done:
      if self.op_error:
        op.error.code = 13
        op.error.message = 'boom'
      else:
        op.response.value = vs.SuggestTrialsResponse(
            trials=[svc.make_trial(i + 1, svc.ACTIVE, client='c') for i in range(self.n)]).SerializeToString()
    return op

  def SuggestTrials(self, request):
    if self.fail:
      e = grpc_util.LocalRpcError('x')
      e.set_code([None, grpc.StatusCode.FAILED_PRECONDITION, grpc.StatusCode.NOT_FOUND, grpc.StatusCode.UNKNOWN][self.fail])
      raise e
    return self._op(self.first_done)

  def GetOperation(self, request):
    self.polls += 1
    self.left -= 1
    return self._op(self.left <= 0)


def get_suggestions(first_done: bool, polls: int, fail: int, n_trials: int, op_error: bool, count: int) -> bool:
  """
  pre: 0 <= polls <= 3 and 0 <= fail <= 3 and 0 <= n_trials <= 3 and 1 <= count <= 3
  post: _
  """
  first_done, op_error = (True if first_done else False), (True if op_error else False)
  polls, fail, n_trials, count = conc(polls, 0, 3), conc(fail, 0, 3), conc(n_trials, 0, 3), conc(count, 1, 3)
  with NoTracing():
    service = _Service(first_done, polls, fail, n_trials, op_error)
    client = vizier_client.VizierClient(svc.S, 'c', service)
    try:
      got = client.get_suggestions(count)
      exc = None
    except Exception as e:  # noqa
      got, exc = None, e
    if fail == 1:
      ok = exc is None and got == []                                  # finished study: empty suggestion list
    elif fail:
      ok = isinstance(exc, grpc.RpcError)                             # other service errors are raised
    elif op_error:
      ok = isinstance(exc, RuntimeError)                              # a failed operation is reported
    else:
      ok = exc is None and [t.id for t in got] == list(range(1, n_trials + 1))
      ok = ok and all(t.assigned_worker == 'c' for t in got)
    if not fail:
      ok = ok and service.polls == (0 if first_done else max(1, polls))   # polls until done, no longer
  reach('client')
  return finish(ok, (first_done, polls, fail, n_trials, op_error, count))
