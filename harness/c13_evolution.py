"""C13 for the randomised evolutionary designers that persist their state in study metadata: eagle strategy and NSGA-II.

A designer kept alive for the whole study and a twin that is dumped -> rebuilt -> loaded before chosen steps (the state
travelling through the real metadata wire path: Metadata -> KeyValue protos -> StudySpec.metadata -> Metadata) must be
indistinguishable: same suggestions at every step, same persisted state at the end.  The schedule -- seed, batch size, in
which order and in which later round trials are reported completed (parallel workers finish out of id order), and the
subset of steps before which the twin is restarted -- is chosen by the solver; the numpy code of the designers runs
natively on it (outside tracing).

Encoded (real code): EagleStrategyDesigner.suggest/update/dump/load, eagle_strategy.serialization, FireflyPool;
NSGA2Designer (+ CanonicalEvolutionDesigner, NSGA2Survival, numpy_populations) suggest/update/dump/load;
metadata_util.make_key_value_list/merge_study_metadata, StudyConfig metadata conversion.
"""
import os

from engine.hsupport import NoTracing, conc, finish, reach
from vizier import pyvizier as vz
from vizier._src.algorithms.core import abstractions as vza
from vizier._src.algorithms.designers.eagle_strategy import eagle_strategy
from vizier._src.algorithms.evolution import nsga2
from vizier._src.pyvizier.oss import metadata_util
from vizier._src.service import study_pb2

ASSUMPTIONS = [
    'the designers\' numpy code runs natively; the solver chooses the schedule (seed, batch, completion pattern, restart '
    'subset) and every schedule of the stated space is executed',
    'objective = fixed deterministic function of the parameters',
]
ROUNDS = 8


def _problem(kind):
  p = vz.ProblemStatement()
  p.search_space.root.add_float_param('x', 0.0, 1.0)
  p.search_space.root.add_float_param('y', -2.0, 2.0)
  if kind != 'nsga2_two':
    p.search_space.root.add_categorical_param('c', ['a', 'b', 'c'])
    p.search_space.root.add_discrete_param('d', [1.0, 2.0, 4.0])
  p.metric_information.append(vz.MetricInformation(name='m', goal=vz.ObjectiveMetricGoal.MAXIMIZE))
  if kind.startswith('nsga2'):
    p.metric_information.append(vz.MetricInformation(name='n', goal=vz.ObjectiveMetricGoal.MINIMIZE))
  return p


def _make(kind, problem, seed):
  if kind == 'eagle':
    return eagle_strategy.EagleStrategyDesigner(problem, seed=seed)
  return nsga2.NSGA2Designer(problem, population_size=6, first_survival_after=6, seed=seed)


def _through_the_wire(md):
  """What the service does with persisted algorithm state: key-value protos merged into the study spec, read back."""
  spec = study_pb2.StudySpec()
  metadata_util.merge_study_metadata(spec, metadata_util.make_key_value_list(md))
  blob = spec.SerializeToString()
  spec2 = study_pb2.StudySpec.FromString(blob)
  return metadata_util.from_key_value_list(spec2.metadata)


INF_EVERY = [0]      # > 0: every k-th evaluation reports an infinite loss (a diverged run)
_EVALS = [0]


def _objective(params):
  d = params.as_dict()
  _EVALS[0] += 1
  if INF_EVERY[0] and _EVALS[0] % INF_EVERY[0] == 1:
    return {'m': float(d['x']), 'n': float('inf')}
  v = float(d['x']) - 0.5 * float(d['y']) * float(d['y'])
  if 'c' in d:
    v += {'a': 0.0, 'b': 0.25, 'c': -0.5}[str(d['c'])] + 0.01 * float(d['d'])
  return {'m': v, 'n': float(d['x']) + float(d['y'])}


def _params_key(suggestions):
  out = []
  for s in suggestions:
    out.append(sorted((k, repr(v if not hasattr(v, 'item') else v.item()) if not isinstance(v, str) else str(v))
                      for k, v in s.parameters.as_dict().items()))
  return out


def _md_key(md):
  return sorted((tuple(ns), k, repr(v)) for ns, k, v in md.all_items() if k != 'dump_timestamp')


def _run(kind, seed, batch, pattern, mask, args):
  with NoTracing():
    problem = _problem(kind)
    names = [m.name for m in problem.metric_information]
    live, twin = _make(kind, problem, seed), _make(kind, problem, seed)
    next_id = 1
    pending = []                   # suggested, not yet reported
    ok, where = True, None
    for r in range(ROUNDS):
      if (mask >> r) & 1:
        state = _through_the_wire(twin.dump())
        twin = _make(kind, problem, seed)
        twin.load(state)
      a, b = live.suggest(batch), twin.suggest(batch)
      if kind == 'eagle':
        if _params_key(a) != _params_key(b):
          ok, where = False, ['suggest differs at round', r, _params_key(a), _params_key(b)]
          break
      else:
        # randomised evolutionary designer: the same population, phase and counters (both are fed the same history)
        s1, s2 = _md_key(live.dump()), _md_key(twin.dump())
        ph1 = live._num_trials_seen < live._first_survival_after
        ph2 = twin._num_trials_seen < twin._first_survival_after
        if s1 != s2 or ph1 != ph2 or live._num_trials_seen != twin._num_trials_seen or len(b) != len(a):
          ok, where = False, ['population / phase / counters differ at round', r, live._num_trials_seen,
                              twin._num_trials_seen, s1 == s2]
          break
      for s in a:
        pending.append(s.to_trial(next_id))
        next_id += 1
      # which of the pending trials are reported now (parallel workers finish out of id order, some a round later)
      if pattern == 0:
        now = list(pending)
      elif pattern == 1:
        now = list(reversed(pending))
      elif pattern == 2:
        now = [t for t in pending if t.id % 2 == 0] if r % 2 == 0 else list(reversed(pending))
      else:
        now = list(pending[-1:]) if r % 3 != 2 else list(pending)
      pending = [t for t in pending if all(t.id != u.id for u in now)]
      completed = []
      for t in now:
        vals = _objective(t.parameters)
        t.complete(vz.Measurement({n: vals[n] for n in names}))
        completed.append(t)
      for d in (live, twin):
        import copy
        d.update(vza.CompletedTrials(copy.deepcopy(completed)), vza.ActiveTrials(copy.deepcopy(pending)))
    if ok:
      s1, s2 = _md_key(live.dump()), _md_key(_through_the_wire(twin.dump()))
      if s1 != s2:
        ok, where = False, ['persisted state differs at the end']
  reach('%s_restart' % kind)
  return finish(ok, args, obs=where)


def eagle_restart(seed: int, batch: int, pattern: int, mask: int) -> bool:
  """
  pre: 0 <= seed <= 2 and 1 <= batch <= 3 and 0 <= pattern <= 3 and 0 <= mask <= 255
  post: _
  """
  seed = conc(seed, 0, 2)
  sl = os.environ.get('VERIF_SLICE')
  if sl is not None and seed != int(sl):
    return True
  batch, pattern, mask = [2, 3, 5][conc(batch, 1, 3) - 1], conc(pattern, 0, 3), conc(mask, 0, 255)
  return _run('eagle', seed, batch, pattern, mask, (seed, [2, 3, 5].index(batch) + 1, pattern, mask))


def eagle_restart_quick(seed: int, batch: int, pattern: int, m: int) -> bool:
  """
  pre: 0 <= seed <= 1 and 2 <= batch <= 3 and 0 <= pattern <= 3 and 0 <= m <= 5
  post: _
  """
  seed, batch, pattern, m = conc(seed, 0, 1), [2, 3, 5][conc(batch, 2, 3) - 1], conc(pattern, 0, 3), conc(m, 0, 5)
  mask = [0xFF, 0x00, 0xAA, 0x10, 0xE0, 0x81][m]
  return _run('eagle', seed, batch, pattern, mask, (seed, [2, 3, 5].index(batch) + 1, pattern, m))


def nsga2_restart(space: int, seed: int, batch: int, pattern: int, m: int) -> bool:
  """
  pre: 0 <= space <= 2 and 0 <= seed <= 1 and 1 <= batch <= 3 and 0 <= pattern <= 3 and 0 <= m <= 5
  post: _
  """
  space, seed = conc(space, 0, 2), conc(seed, 0, 1)
  batch, pattern, m = [2, 3, 5][conc(batch, 1, 3) - 1], conc(pattern, 0, 3), conc(m, 0, 5)
  mask = [0xFF, 0x00, 0xAA, 0x10, 0xE0, 0x81][m]
  with NoTracing():
    INF_EVERY[0], _EVALS[0] = (4 if space == 2 else 0), 0       # space 2: the two-parameter space with diverged runs
  try:
    return _run(['nsga2_mixed', 'nsga2_two', 'nsga2_two'][space], seed, batch, pattern, mask,
                (space, seed, [2, 3, 5].index(batch) + 1, pattern, m))
  finally:
    with NoTracing():
      INF_EVERY[0] = 0


def eagle_long_restart(seed: int, period: int) -> bool:
  """
  pre: 0 <= seed <= 1 and 0 <= period <= 2
  post: _
  """
  seed, period = conc(seed, 0, 1), [1, 5, 97][conc(period, 0, 2)]
  args = (seed, [1, 5, 97].index(period))
  with NoTracing():
    # a long sequential study (flies get removed from the pool after many unsuccessful moves): live vs. restarted every
    # `period`-th step, on a 2-parameter problem
    problem = _problem('nsga2_two')
    problem.metric_information = vz.MetricsConfig([vz.MetricInformation(name='m', goal=vz.ObjectiveMetricGoal.MAXIMIZE)])
    live, twin = _make('eagle', problem, seed), _make('eagle', problem, seed)
    ok, where = True, None
    for step in range(1000):
      if step % period == 0 and step:
        state = _through_the_wire(twin.dump())
        twin = _make('eagle', problem, seed)
        twin.load(state)
      a, b = live.suggest(1), twin.suggest(1)
      if _params_key(a) != _params_key(b):
        ok, where = False, ['suggest differs at step', step]
        break
      t = a[0].to_trial(step + 1)
      d = t.parameters.as_dict()
      t.complete(vz.Measurement({'m': -(float(d['x']) - 0.3) ** 2 - (float(d['y']) - 0.4) ** 2}))
      import copy
      for des in (live, twin):
        des.update(vza.CompletedTrials([copy.deepcopy(t)]), vza.ActiveTrials())
  reach('eagle_long')
  return finish(ok, args, obs=where)


# ---- the same through the policy layer that persists and restores designer state and the incorporated-trial cache -----
def _hosted(kind, seed, batch, pattern, mask, args):
  from vizier import pythia
  from vizier._src.algorithms.policies import designer_policy as dp
  from vizier._src.pythia import local_policy_supporters as lps
  with NoTracing():
    problem = _problem(kind)
    names = [m.name for m in problem.metric_information]
    factory = lambda p, **kw: _make(kind, p, seed)      # noqa: E731  (the policy's own seed argument is ignored)
    worlds = []
    import copy
    for _ in range(2):
      own = copy.deepcopy(problem)       # (the supporter keeps the study config, incl. its metadata, by reference)
      sup = lps.InRamPolicySupporter(own)
      worlds.append({'sup': sup, 'problem': own, 'policy': dp.PartiallySerializableDesignerPolicy(own, sup, factory),
                     'pending': []})
    ok, where = True, None
    for r in range(ROUNDS):
      if (mask >> r) & 1:
        w = worlds[1]                    # the service's behaviour: a NEW policy, everything restored from study metadata
        w['policy'] = dp.PartiallySerializableDesignerPolicy(w['problem'], w['sup'], factory)
      keys = []
      for w in worlds:
        req = pythia.SuggestRequest(study_descriptor=w['sup'].study_descriptor(), count=batch)
        decision = w['policy'].suggest(req)
        w['sup']._UpdateMetadata(decision.metadata)
        new = w['sup'].AddSuggestions(decision.suggestions)
        w['pending'].extend(new)
        keys.append(_params_key(decision.suggestions))
      if kind == 'eagle' and keys[0] != keys[1]:
        ok, where = False, ['suggest differs at round', r, keys[0], keys[1]]
        break
      if kind != 'eagle':
        d0, d1 = worlds[0]['policy'].designer, worlds[1]['policy'].designer
        if _md_key(d0.dump()) != _md_key(d1.dump()) or d0._num_trials_seen != d1._num_trials_seen:
          ok, where = False, ['population / counters differ at round', r, d0._num_trials_seen, d1._num_trials_seen]
          break
      for wi, w in enumerate(worlds):
        pending = w['pending']
        if pattern == 0:
          now = list(pending)
        elif pattern == 1:
          now = list(reversed(pending))
        elif pattern == 2:
          now = [t for t in pending if t.id % 2 == 0] if r % 2 == 0 else list(reversed(pending))
        else:
          now = list(pending[-1:]) if r % 3 != 2 else list(pending)
        w['pending'] = [t for t in pending if all(t.id != u.id for u in now)]
        for t in now:
          # NSGA-II: both worlds are fed the history of world 0 (same parameters by construction for eagle)
          src = t if (kind == 'eagle' or wi == 0) else worlds[0]['by_id'][t.id]
          vals = _objective(src.parameters)
          if kind != 'eagle' and wi == 1:
            t.parameters = src.parameters
          t.complete(vz.Measurement({n: vals[n] for n in names}))
        if wi == 0:
          w.setdefault('by_id', {}).update({t.id: t for t in now})
  reach('hosted_%s_restart' % kind)
  return finish(ok, args, obs=where)


def hosted_eagle_restart(seed: int, batch: int, pattern: int, m: int) -> bool:
  """
  pre: 0 <= seed <= 1 and 2 <= batch <= 3 and 0 <= pattern <= 3 and 0 <= m <= 5
  post: _
  """
  seed, batch, pattern, m = conc(seed, 0, 1), [2, 3, 5][conc(batch, 2, 3) - 1], conc(pattern, 0, 3), conc(m, 0, 5)
  mask = [0xFF, 0x00, 0xAA, 0x10, 0xE0, 0x81][m]
  return _hosted('eagle', seed, batch, pattern, mask, (seed, [2, 3, 5].index(batch) + 1, pattern, m))
