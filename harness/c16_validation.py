"""C16 (validation, traversal, client refusal): definitions are validated when built, conditional spaces are walked one
parameter at a time, membership in a conditional space is refused, and the client refuses out-of-space trials.

Encoded (real code): ParameterConfig.factory / _validate_bounds / _get_feasible_points_and_bounds / _get_default_value,
SearchSpaceSelector.add_*_param / select_values, ParameterConfig.subspace/_add_children, SearchSpace.add/contains/
assert_contains, SequentialParameterBuilder (dfs, bfs), clients.Study.add_trial on a live in-process service.
"""
from engine.hsupport import NoTracing, cbool, conc, finish, reach
from vizier import pyvizier as vz
from vizier._src.pyvizier.shared import parameter_config as pc
from vizier._src.pyvizier.shared import parameter_iterators as pi

UNBLOCK = ['sqlite3.connect', 'sqlite3.connect/handle']
ASSUMPTIONS = ['floats are reals + nan/inf cases; strings <= 2 chars; feasible lists <= 3 values']
INF = float('inf')


def _finite(x):
  return x == x and x != INF and x != -INF


def factory_bounds(lo: float, hi: float, ints: bool, ilo: int, ihi: int, mixed: bool) -> bool:
  """
  pre: True
  post: _
  """
  ints, mixed = cbool(ints), cbool(mixed)
  if mixed:
    bounds = (ilo, hi)                       # int and float mixed: invalid
    invalid = True
  elif ints:
    bounds = (ilo, ihi)
    invalid = ilo > ihi
  else:
    bounds = (lo, hi)
    invalid = (not _finite(lo)) or (not _finite(hi)) or lo > hi      # non-finite or reversed bounds
  try:
    cfg = pc.ParameterConfig.factory('x', bounds=bounds)
    raised = False
  except (ValueError, TypeError):
    cfg, raised = None, True
  reach('bounds_invalid' if invalid else 'bounds_valid')
  ok = raised == invalid
  if cfg is not None and not invalid:
    ok = ok and cfg.type == (pc.ParameterType.INTEGER if ints else pc.ParameterType.DOUBLE) and cfg.bounds == bounds
  return finish(ok, (lo, hi, ints, ilo, ihi, mixed))


def factory_feasible_numeric2(n: int, a: float, b: float, name_empty: bool) -> bool:
  """
  pre: 1 <= n <= 2
  post: _
  """
  return _numeric(n, a, b, 0.0, name_empty, (n, a, b, name_empty))


def factory_feasible_numeric(n: int, a: float, b: float, c: float, name_empty: bool) -> bool:
  """
  pre: 1 <= n <= 3
  post: _
  """
  return _numeric(n, a, b, c, name_empty, (n, a, b, c, name_empty))


def _numeric(n, a, b, c, name_empty, args):
  n, name_empty = conc(n, 1, 3), cbool(name_empty)
  vals = [a, b, c][:n]
  invalid = name_empty
  for i in range(n):
    if not _finite(vals[i]):
      invalid = True                         # non-finite feasible value
    for j in range(i + 1, n):
      if vals[i] == vals[j]:
        return True                          # duplicates: see factory_feasible_duplicates (concrete values; the error
                                             # path hashes the values, which would realise symbolic ones)
  return _factory_check('' if name_empty else 'x', vals, invalid, False, args)


def factory_feasible_strings(n: int, sa: str, sb: str, mix: bool, a: float, name_empty: bool) -> bool:
  """
  pre: 1 <= n <= 2 and len(sa) <= 2 and len(sb) <= 2
  post: _
  """
  n, mix, name_empty = conc(n, 1, 2), cbool(mix), cbool(name_empty)
  if not _finite(a):
    return True
  if mix:
    vals, invalid = [a, sa], True            # numbers and strings mixed
  else:
    vals, invalid = [sa, sb][:n], name_empty
    if n == 2 and sa == sb:
      return True                            # duplicates: see factory_feasible_duplicates
  return _factory_check('' if name_empty else 'x', vals, invalid or name_empty, not mix, (n, sa, sb, mix, a, name_empty))


def factory_feasible_duplicates(which: int) -> bool:
  """
  pre: 0 <= which <= 4
  post: _
  """
  which = conc(which, 0, 4)
  vals = [[1.0, 1.0], [2, 2.0], ['a', 'a'], [3.0, 1.0, 3.0], ['b', 'a', 'b']][which]
  return _factory_check('x', vals, True, which in (2, 4), (which,))


def _factory_check(name, vals, invalid, strs, args):
  try:
    cfg = pc.ParameterConfig.factory(name, feasible_values=vals)
    raised = False
  except (ValueError, TypeError):
    cfg, raised = None, True
  reach('feasible_invalid' if invalid else 'feasible_valid')
  ok = raised == invalid
  if cfg is not None and not invalid:
    fv = cfg.feasible_values
    ok = ok and cfg.type == (pc.ParameterType.CATEGORICAL if strs else pc.ParameterType.DISCRETE)
    ok = ok and len(fv) == len(vals)
    for i in range(len(fv) - 1):
      ok = ok and fv[i] < fv[i + 1]          # normalised: sorted and unique
    for v in vals:
      ok = ok and v in fv
    if not strs:
      ok = ok and cfg.bounds == (fv[0], fv[len(fv) - 1])
  return finish(ok, args)


def children_rules(kind: int, equal_bounds: bool, dup_name: bool, bad_parent_value: bool) -> bool:
  """
  pre: 0 <= kind <= 3
  post: _
  """
  kind, equal_bounds, dup_name, bad_parent_value = conc(kind, 0, 3), cbool(equal_bounds), cbool(dup_name), cbool(bad_parent_value)
  with NoTracing():
    space = vz.SearchSpace()
    root = space.root
    if kind == 0:      # continuous parent: children are never allowed, even when its bounds coincide
      parent = root.add_float_param('p', 2.0, 2.0 if equal_bounds else 3.0)
      values = [2.0]
    elif kind == 1:
      parent = root.add_int_param('p', 1, 1 if equal_bounds else 3)
      values = [1]
    elif kind == 2:
      parent = root.add_discrete_param('p', [1.0] if equal_bounds else [1.0, 2.5])
      values = [1.0]
    else:
      parent = root.add_categorical_param('p', ['a'] if equal_bounds else ['a', 'b'])
      values = ['a']
    if bad_parent_value:
      values = [77.0] if kind != 3 else ['zzz']          # not a feasible value of the parent
    invalid = kind == 0 or bad_parent_value
    try:
      sel = parent.select_values(values)
      sel.add_float_param('child', 0.0, 1.0)
      if dup_name:
        invalid = True
        sel.add_float_param('child', 0.0, 2.0)             # duplicate name in one subspace
      raised = False
    except (ValueError, TypeError):
      raised = True
    ok = raised == invalid
    if dup_name and not (kind == 0 or bad_parent_value):
      pass
    ok = ok and (space.is_conditional == (not raised or (dup_name and kind != 0 and not bad_parent_value)))
    # duplicate names at the root
    try:
      root.add_float_param('p', 0.0, 1.0)
      ok = False
    except ValueError:
      pass
  reach('children_%d_%s' % (kind, 'invalid' if invalid else 'valid'))
  return finish(bool(ok), (kind, equal_bounds, dup_name, bad_parent_value))


def _conditional_space(shape):
  """shape 0..3: increasingly deep conditional spaces (depth <= 3)."""
  space = vz.SearchSpace()
  root = space.root
  m = root.add_categorical_param('model', ['dnn', 'lin', 'tree'])
  root.add_float_param('lr', 0.0, 1.0)
  if shape >= 1:
    d = m.select_values(['dnn']).add_int_param('layers', 1, 2)
    m.select_values(['lin', 'tree']).add_float_param('l2', 0.0, 1.0)
    if shape >= 2:
      u = d.select_values([2]).add_discrete_param('units', [16.0, 32.0])
      if shape >= 3:
        u.select_values([32.0]).add_categorical_param('act', ['relu', 'tanh'])
  return space


def _active(shape, model, layers, units):
  names = ['model', 'lr']
  if shape >= 1:
    if model == 'dnn':
      names.append('layers')
      if shape >= 2 and layers == 2:
        names.append('units')
        if shape >= 3 and units == 32.0:
          names.append('act')
    else:
      names.append('l2')
  return sorted(names)


def traversal(shape: int, order: int, model: int, layers: int, units: int) -> bool:
  """
  pre: 0 <= shape <= 3 and 0 <= order <= 1 and 0 <= model <= 2 and 1 <= layers <= 2 and 0 <= units <= 1
  post: _
  """
  shape, order, model, layers, units = conc(shape, 0, 3), conc(order, 0, 1), conc(model, 0, 2), conc(layers, 1, 2), conc(units, 0, 1)
  with NoTracing():
    space = _conditional_space(shape)
    mval, uval = ['dnn', 'lin', 'tree'][model], [16.0, 32.0][units]
    choose = {'model': mval, 'lr': 0.5, 'layers': layers, 'l2': 0.25, 'units': uval, 'act': 'tanh'}
    builder = pi.SequentialParameterBuilder(space, traverse_order=['dfs', 'bfs'][order])
    visited = []
    for cfg in builder:
      visited.append(cfg.name)
      builder.choose_value(choose[cfg.name])
      if len(visited) > 10:
        break
    want = _active(shape, mval, layers, uval)
    ok = sorted(visited) == want and len(visited) == len(set(visited))           # exactly the active ones, once each
    ok = ok and sorted(builder.parameters.as_dict().keys()) == want
    # membership in a conditional space is refused as unsupported, never answered
    if shape >= 1:
      try:
        space.contains(builder.parameters)
        ok = False
      except NotImplementedError:
        pass
  reach('traversal_shape%d' % shape)
  return finish(bool(ok), (shape, order, model, layers, units))


def space_membership(missing: int, extra: bool, fval: float, ival: int, cat: int) -> bool:
  """
  pre: 0 <= missing <= 3 and 0 <= cat <= 2
  post: _
  """
  missing, extra, cat = conc(missing, 0, 3), cbool(extra), conc(cat, 0, 2)
  with NoTracing():
    space = vz.SearchSpace()
    space.root.add_float_param('f', -1.0, 1.0)
    space.root.add_int_param('i', 0, 3)
    space.root.add_categorical_param('c', ['a', 'b'])
  params = {'f': fval, 'i': ival, 'c': ['a', 'b', 'zzz'][cat]}
  if missing:
    del params[['f', 'i', 'c'][missing - 1]]
  if extra:
    params['other'] = 1
  want = missing == 0 and not extra and (fval == fval) and -1.0 <= fval <= 1.0 and 0 <= ival <= 3 and cat < 2
  got = space.contains(vz.ParameterDict(params))
  reach('member' if want else 'non_member')
  return finish(got == want, (missing, extra, fval, ival, cat))


def traversal_bool_parent(defined_with: int, walk_with: int, value: bool, order: int) -> bool:
  """
  pre: 0 <= defined_with <= 1 and 0 <= walk_with <= 1 and 0 <= order <= 1
  post: _
  """
  defined_with, walk_with, value, order = conc(defined_with, 0, 1), conc(walk_with, 0, 1), cbool(value), conc(order, 0, 1)
  with NoTracing():
    space = vz.SearchSpace()
    flag = space.root.add_bool_param('flag')
    # the child is attached to the value True, spelled either as the string 'True' or as the Python bool
    flag.select_values(['True'] if defined_with == 0 else [True]).add_float_param('rate', 0.0, 1.0)
    space.root.add_float_param('z', 0.0, 1.0)
    chosen = ('True' if value else 'False') if walk_with == 0 else value
    builder = pi.SequentialParameterBuilder(space, traverse_order=['dfs', 'bfs'][order])
    visited = []
    for cfg in builder:
      visited.append(cfg.name)
      # falsy choices (False, 0.0) are values like any other: they must be recorded, not read as "skip"
      builder.choose_value(chosen if cfg.name == 'flag' else (0.0 if cfg.name == 'z' else 0.5))
      if len(visited) > 6:
        break
    want = sorted(['flag', 'z'] + (['rate'] if value else []))
    ok = sorted(visited) == want
    got = builder.parameters.as_dict()
    ok = ok and sorted(got) == want and got.get('z') == 0.0 and str(got.get('flag')) == str(value)
  reach('traversal_bool')
  return finish(bool(ok), (defined_with, walk_with, value, order))


def client_add_trial_conditional(defect: int) -> bool:
  """
  pre: 0 <= defect <= 3
  post: _
  """
  defect = conc(defect, 0, 3)
  with NoTracing():
    from vizier._src.service import clients, study_pb2, vizier_client, vizier_service, vizier_service_pb2
    from vizier.service import pyvizier as svz
    sv = vizier_service.VizierServicer(database_url=None)
    sc = svz.StudyConfig(algorithm='RANDOM_SEARCH')
    m = sc.search_space.root.add_categorical_param('model', ['dnn', 'lin'])
    m.select_values(['dnn']).add_int_param('layers', 1, 3)
    sc.metric_information.append(svz.MetricInformation('m', goal=svz.ObjectiveMetricGoal.MAXIMIZE))
    st = sv.CreateStudy(vizier_service_pb2.CreateStudyRequest(parent='owners/o', study=study_pb2.Study(
        display_name='s', study_spec=sc.to_proto())))
    study = clients.Study(vizier_client.VizierClient(st.name, 'c', sv))
    params = [{'model': 'dnn', 'layers': 2, 'bogus': 1},          # unknown key
              {'model': 'lin', 'layers': 2},                      # child inactive under the chosen parent value
              {'model': 'dnn', 'layers': 9},                      # active child out of range
              {'model': 'zzz'}][defect]                           # infeasible parent value
    try:
      study.add_trial(vz.Trial(parameters=params))
      accepted = True
    except Exception:  # noqa  (a conditional study may be refused as unsupported, or validated: never accepted wrongly)
      accepted = False
    ok = (not accepted) and len(list(study.trials().get())) == 0
  reach('client_add_trial_conditional')
  return finish(bool(ok), (defect,))


def client_add_trial(inside: int, recreated: bool) -> bool:
  """
  pre: 0 <= inside <= 3
  post: _
  """
  inside, recreated = conc(inside, 0, 3), cbool(recreated)
  with NoTracing():
    import itertools
    from vizier._src.service import clients, vizier_client, vizier_service
    sv = vizier_service.VizierServicer(database_url=None)

    def make(lo, hi):
      sc = vz.StudyConfig(algorithm='RANDOM_SEARCH') if hasattr(vz, 'StudyConfig') else None
      from vizier.service import pyvizier as svz
      sc = svz.StudyConfig(algorithm='RANDOM_SEARCH')
      sc.search_space.root.add_float_param('x', lo, hi)
      sc.metric_information.append(svz.MetricInformation('m', goal=svz.ObjectiveMetricGoal.MAXIMIZE))
      from vizier._src.service import study_pb2, vizier_service_pb2
      st = sv.CreateStudy(vizier_service_pb2.CreateStudyRequest(parent='owners/o', study=study_pb2.Study(
          display_name='s', study_spec=sc.to_proto())))
      return clients.Study(vizier_client.VizierClient(st.name, 'c', sv))

    study = make(0.0, 1.0)
    lo, hi = 0.0, 1.0
    if recreated:
      # the study is used, deleted and re-created under the same name with a DIFFERENT space
      study.add_trial(vz.Trial(parameters={'x': 0.5}))
      study.delete()
      study = make(10.0, 20.0)
      lo, hi = 10.0, 20.0
    value = [lo, hi + 1.0, lo - 0.5, (lo + hi) / 2][inside]
    want_ok = lo <= value <= hi
    try:
      t = study.add_trial(vz.Trial(parameters={'x': value}))
      accepted = True
    except Exception:  # noqa
      accepted = False
    n = len(list(study.trials().get()))
    ok = accepted == want_ok and n == (1 if want_ok else 0)          # refused trials are not stored
    if accepted and want_ok:
      ok = ok and t.materialize().parameters.as_dict() == {'x': value}
    # wrong / extra parameter names are refused too
    try:
      study.add_trial(vz.Trial(parameters={'y': value}))
      ok = False
    except Exception:  # noqa
      pass
  reach('client_add_trial')
  return finish(bool(ok), (inside, recreated))
